"""BIT - bit-level value domain for symx (DESIGN 3 BIT).

An integer of width w is a vector of bits, each bit a polynomial over GF(2) in algebraic normal
form (a set of monomials, a monomial a set of atoms).  ANF is canonical, so equality of two
bits is decided exactly (both ways).  Atoms are input bits, bits of initial memory cells and output
bits of uninterpreted table look-ups T(index-vector)[j].  Counters can be bound to the small
linear domain Lin (sym + const) instead."""
import symx
from symx import Ptr, TOP, Unsupported

ZERO = frozenset()
ONE = frozenset([frozenset()])
LIMIT = 4000  # monomials per bit before giving up (-> TOP)


def atom(a):
    return frozenset([frozenset([a])])


def bxor(a, b):
    return a ^ b


def band(a, b):
    if not a or not b:
        return ZERO
    if a == ONE:
        return b
    if b == ONE:
        return a
    if len(a) * len(b) > 40 * LIMIT:
        raise Blowup()
    acc = {}
    for m1 in a:
        for m2 in b:
            m = m1 | m2
            acc[m] = acc.get(m, 0) ^ 1
    r = frozenset(m for m, c in acc.items() if c)
    if len(r) > LIMIT:
        raise Blowup()
    return r


def bor(a, b):
    return a ^ b ^ band(a, b)


def bnot(a):
    return a ^ ONE


def bite(c, a, b):
    return b ^ band(c, a ^ b)


class Blowup(Exception):
    pass


def subst_bit(bit, env):
    """env: atom -> ZERO/ONE/ANF"""
    if not any(a in env for m in bit for a in m):
        return bit
    out = ZERO
    for m in bit:
        term = ONE
        rest = []
        for a in m:
            if a in env:
                term = band(term, env[a])
                if not term:
                    break
            else:
                rest.append(a)
        if term:
            if rest:
                term = band(term, frozenset([frozenset(rest)]))
            out = out ^ term
    return out


def fmt_bit(b):
    if not b:
        return '0'
    ms = []
    for m in sorted(b, key=lambda m: (len(m), sorted(map(str, m)))):
        ms.append('1' if not m else '&'.join(sorted(map(str, m))))
    return '^'.join(ms)


class BV:
    __slots__ = ('bits',)

    def __init__(self, bits):
        self.bits = tuple(bits)

    @property
    def w(self):
        return len(self.bits)

    @staticmethod
    def const(v, w):
        return BV([ONE if (v >> i) & 1 else ZERO for i in range(w)])

    @staticmethod
    def sym(name, w, lo=0):
        return BV([atom('%s_%d' % (name, i)) for i in range(lo, lo + w)])

    def value(self):
        v = 0
        for i, b in enumerate(self.bits):
            if b == ONE:
                v |= 1 << i
            elif b != ZERO:
                return None
        return v

    def known(self):
        """(mask of known bits, value of known bits)"""
        m = v = 0
        for i, b in enumerate(self.bits):
            if b == ONE:
                m |= 1 << i
                v |= 1 << i
            elif b == ZERO:
                m |= 1 << i
        return m, v

    def __eq__(self, o):
        return isinstance(o, BV) and self.bits == o.bits

    def __hash__(self):
        return hash(self.bits)

    def key(self):
        return self.bits

    def __repr__(self):
        v = self.value()
        if v is not None:
            return '%d:i%d' % (v, self.w)
        return '[' + ' '.join(fmt_bit(b) for b in reversed(self.bits)) + ']'

    def subst(self, env):
        return BV([subst_bit(b, env) for b in self.bits])


class Lin:
    """counter value: sum coeff*sym + const (mathematical integer, width remembered)"""
    __slots__ = ('t', 'c', 'w')

    def __init__(self, t, c, w):
        self.t = dict((k, v) for k, v in t.items() if v)
        self.c = c
        self.w = w

    @staticmethod
    def sym(name, w):
        return Lin({name: 1}, 0, w)

    def value(self):
        return self.c if not self.t else None

    def add(self, o, sign=1):
        if isinstance(o, Lin):
            t = dict(self.t)
            for k, v in o.t.items():
                t[k] = t.get(k, 0) + sign * v
            return Lin(t, self.c + sign * o.c, self.w)
        return Lin(self.t, self.c + sign * o, self.w)

    def key(self):
        return (tuple(sorted(self.t.items())), self.c)

    def __eq__(self, o):
        return isinstance(o, Lin) and self.key() == o.key()

    def __hash__(self):
        return hash(self.key())

    def __repr__(self):
        s = '+'.join(('%s' % k if v == 1 else '%d*%s' % (v, k)) for k, v in sorted(self.t.items()))
        if self.c or not s:
            s += ('%+d' % self.c) if s else str(self.c)
        return s

    def subst(self, env):
        return self


class Cond:
    """opaque comparison that has no small ANF"""
    __slots__ = ('pred', 'a', 'b', 'pos')

    def __init__(self, pred, a, b, pos=True):
        self.pred, self.a, self.b, self.pos = pred, a, b, pos

    def neg(self):
        return Cond(self.pred, self.a, self.b, not self.pos)

    def key(self):
        return (self.pred, self.a.key() if hasattr(self.a, 'key') else self.a, self.b.key() if hasattr(self.b, 'key') else self.b, self.pos)

    def __repr__(self):
        return '%s(%s %s %s)' % ('' if self.pos else '!', self.a, self.pred, self.b)

    def subst(self, env):
        return Cond(self.pred, self.a.subst(env) if hasattr(self.a, 'subst') else self.a,
                    self.b.subst(env) if hasattr(self.b, 'subst') else self.b, self.pos)


class Off:
    """symbolic byte offset: const + sum scale*term (terms are hashable keys of BV/Lin values)"""
    __slots__ = ('c', 't')

    def __init__(self, c, t):
        self.c = c
        self.t = tuple(sorted(((k, s) for k, s in t if s), key=lambda x: repr(x)))

    def key(self):
        return ('off', self.c, self.t)

    def __repr__(self):
        return '%d+%s' % (self.c, '+'.join('%d*<%s>' % (s, str(k)[:40]) for k, s in self.t))


def as_bv(v, w):
    if isinstance(v, BV):
        return v
    if isinstance(v, bool):
        return BV.const(int(v), w)
    if isinstance(v, int):
        return BV.const(v & ((1 << w) - 1), w)
    return None


class Bit:
    fork_in_loops = True

    def __init__(self, nonnull=True):
        self.tables = {}
        self.lin_lb = {}   # counter symbol -> assumed lower bound
        self.unbounded = set()   # counter symbols that stand for ANY value above their lower bound (narrowing them may wrap)
        self.cond_atoms = {}
        self._nonnull = nonnull
        self.max_visits = 80

    # ---- constants
    def int_const(self, v, bits):
        return BV.const(v & ((1 << bits) - 1), bits)

    def bool_const(self, b):
        return BV.const(1 if b else 0, 1)

    def fp_const(self, v, ty):
        raise Unsupported('floating point in BIT domain')

    def concrete(self, v):
        if isinstance(v, (BV, Lin)):
            return v.value()
        if isinstance(v, int):
            return v
        return None

    def entry(self, base, off, ty):
        if ty.is_ptr:
            return Ptr('*%s[%s]' % (base, self.off_key(off)), 0)
        if not ty.is_int:
            raise Unsupported('non-integer memory in BIT domain')
        k = self.off_key(off)
        nm = 'M{%s@%s}' % (base, k if isinstance(k, int) else abs(hash(k)) % 10**8)
        self.tables[nm] = (base, off)
        return BV.sym(nm, ty.a)

    # ---- arithmetic
    def binop(self, op, a, b, ty):
        if a is TOP or b is TOP:
            return TOP
        if isinstance(a, Cond) or isinstance(b, Cond):
            raise Unsupported('arithmetic on an opaque comparison')
        w = ty.a
        if isinstance(a, Lin) or isinstance(b, Lin):
            return self.lin_binop(op, a, b, w)
        try:
            return self.bv_binop(op, a, b, w)
        except Blowup:
            return TOP

    def lin_binop(self, op, a, b, w):
        def conc(x):
            return x.value() if isinstance(x, (BV, Lin)) else x
        if op == 'add':
            if isinstance(a, Lin):
                o = b if isinstance(b, Lin) else conc(b)
                if o is None:
                    return TOP
                if not isinstance(o, Lin) and o >> (w - 1):
                    o -= 1 << w
                return a.add(o)
            return self.lin_binop(op, b, a, w)
        if op == 'sub':
            if isinstance(a, Lin):
                o = b if isinstance(b, Lin) else conc(b)
                if o is None:
                    return TOP
                if not isinstance(o, Lin) and o >> (w - 1):
                    o -= 1 << w
                return a.add(o, -1)
            ca = conc(a)
            if ca is None:
                return TOP
            return Lin({}, ca, w).add(b, -1)
        return TOP

    def bv_binop(self, op, a, b, w):
        a = as_bv(a, w)
        b = as_bv(b, w)
        if a is None or b is None:
            raise Unsupported('BIT binop on non-vector')
        A, B = a.bits, b.bits
        if op == 'and':
            return BV([band(x, y) for x, y in zip(A, B)])
        if op == 'or':
            return BV([bor(x, y) for x, y in zip(A, B)])
        if op == 'xor':
            return BV([x ^ y for x, y in zip(A, B)])
        if op in ('shl', 'lshr', 'ashr'):
            n = b.value()
            if n is None:
                return TOP
            if n >= w:
                return BV.const(0, w)
            if op == 'shl':
                return BV([ZERO] * n + list(A[:w - n]))
            fill = ZERO if op == 'lshr' else A[-1]
            return BV(list(A[n:]) + [fill] * n)
        if op == 'add':
            return self.add(A, B, ZERO)
        if op == 'sub':
            return self.add(A, [bnot(x) for x in B], ONE)
        if op == 'mul':
            cb = b.value()
            ca = a.value()
            if cb is None and ca is not None:
                a, b, A, B, ca, cb = b, a, B, A, cb, ca
            if cb is None:
                return TOP
            acc = BV.const(0, w)
            for i in range(w):
                if (cb >> i) & 1:
                    acc = self.add(acc.bits, [ZERO] * i + list(A[:w - i]), ZERO)
                    if acc is TOP:
                        return TOP
            return acc
        if op in ('udiv', 'urem'):
            ca, cb = a.value(), b.value()
            if ca is None or cb is None:
                return TOP
            if cb == 0:
                raise Unsupported('division by zero')
            return BV.const(ca // cb if op == 'udiv' else ca % cb, w)
        return TOP

    def add(self, A, B, carry):
        out = []
        # no-carry fast path: A & B == 0 bitwise and no carry-in
        if carry == ZERO and all(not band(x, y) for x, y in zip(A, B)):
            return BV([x ^ y for x, y in zip(A, B)])
        c = carry
        for x, y in zip(A, B):
            out.append(x ^ y ^ c)
            c = band(x, y) ^ band(c, x ^ y)
        return BV(out)

    def fneg(self, a, ty):
        raise Unsupported('fp')

    def cast(self, op, v, fty, tty):
        if v is TOP:
            return TOP
        if isinstance(v, Lin):
            if op == 'trunc' and tty.a < getattr(v, 'w', 64) and any(k in getattr(self, 'unbounded', ()) for k in v.t):
                # a length / count without an upper bound: narrowing may wrap
                raise Unsupported('narrowing of the unbounded quantity %s to %d bits' % (', '.join(str(k) for k in v.t), tty.a))
            if op in ('zext', 'sext', 'trunc'):
                return Lin(v.t, v.c, tty.a)
            raise Unsupported('cast of counter')
        if isinstance(v, Cond):
            if op in ('zext', 'sext'):
                # the outcome of an opaque comparison becomes a boolean atom (remembered in cond_atoms)
                nm = 'C{%d}' % len(self.cond_atoms)
                for k, c in self.cond_atoms.items():
                    if c.key() == v.key():
                        nm = k
                self.cond_atoms[nm] = v
                a = atom(nm)
                return BV([a] + [ZERO if op == 'zext' else a] * (tty.a - 1))
            return v
        v = as_bv(v, fty.a)
        if op == 'trunc':
            return BV(v.bits[:tty.a])
        if op == 'zext':
            return BV(list(v.bits) + [ZERO] * (tty.a - v.w))
        if op == 'sext':
            return BV(list(v.bits) + [v.bits[-1]] * (tty.a - v.w))
        raise Unsupported('cast %s in BIT domain' % op)

    def reinterpret(self, v, t, ty):
        return None

    def extract(self, a, i):
        raise Unsupported('extractvalue')

    # ---- comparisons
    def cmp(self, kind, pred, a, b, ty):
        if kind != 'icmp':
            raise Unsupported('fcmp in BIT domain')
        if a is TOP or b is TOP:
            raise Unsupported('comparison of undefined value')
        if isinstance(a, Lin) or isinstance(b, Lin):
            return self.lin_cmp(pred, a, b, ty)
        if isinstance(a, Cond) or isinstance(b, Cond):
            cb = self.concrete(b)
            if isinstance(a, Cond) and cb is not None:
                if (pred == 'ne' and cb == 0) or (pred == 'eq' and cb == 1):
                    return (None, a)
                return (None, a.neg())
            raise Unsupported('comparison of comparisons')
        w = ty.a if ty.is_int else 64
        a = as_bv(a, w)
        b = as_bv(b, w)
        ca, cb = a.value(), b.value()
        if ca is not None and cb is not None:
            def s(x):
                return x - (1 << w) if x >> (w - 1) else x
            r = {'eq': ca == cb, 'ne': ca != cb, 'ult': ca < cb, 'ule': ca <= cb, 'ugt': ca > cb, 'uge': ca >= cb,
                 'slt': s(ca) < s(cb), 'sle': s(ca) <= s(cb), 'sgt': s(ca) > s(cb), 'sge': s(ca) >= s(cb)}[pred]
            return (r, None)
        if ca is not None and cb is None and pred not in ('eq', 'ne'):
            # constant on the left: 0 < x is x > 0 (one spelling for the rules below and for the refinements)
            mirror = {'ult': 'ugt', 'ule': 'uge', 'ugt': 'ult', 'uge': 'ule', 'slt': 'sgt', 'sle': 'sge', 'sgt': 'slt', 'sge': 'sle'}
            return self.cmp(kind, mirror[pred], b, a, ty)
        if pred in ('eq', 'ne'):
            diff = [x ^ y for x, y in zip(a.bits, b.bits)]
            if any(d == ONE for d in diff):
                return (pred == 'ne', None)
            nz = [d for d in diff if d != ZERO]
            if not nz:
                return (pred == 'eq', None)
            if len(nz) <= 8:
                try:
                    acc = ZERO
                    for d in nz:
                        acc = bor(acc, d)
                    bit = acc if pred == 'ne' else bnot(acc)
                    return (None, BV([bit]))
                except Blowup:
                    pass
            return (None, Cond('eq', a, b, pred == 'eq'))
        # unsigned order against known bits
        if pred in ('ult', 'ule', 'ugt', 'uge'):
            ma, va = a.known()
            mb, vb = b.known()
            full = (1 << w) - 1
            amin, amax = va, va | (full & ~ma)
            bmin, bmax = vb, vb | (full & ~mb)
            if pred == 'ult':
                if amax < bmin:
                    return (True, None)
                if amin >= bmax:
                    return (False, None)
            if pred == 'ule':
                if amax <= bmin:
                    return (True, None)
                if amin > bmax:
                    return (False, None)
            if pred == 'ugt':
                if amin > bmax:
                    return (True, None)
                if amax <= bmin:
                    return (False, None)
                # x > 0  ==  x != 0
                if cb == 0:
                    return self.cmp(kind, 'ne', a, b, ty)
            if pred == 'uge':
                if amin >= bmax:
                    return (True, None)
                if amax < bmin:
                    return (False, None)
        if pred in ('slt', 'sle', 'sgt', 'sge'):
            # both sign bits known equal zero -> unsigned compare
            if a.bits[-1] == ZERO and b.bits[-1] == ZERO:
                return self.cmp(kind, 'u' + pred[1:], a, b, ty)
        return (None, Cond(pred, a, b))

    def lin_cmp(self, pred, a, b, ty):
        if isinstance(a, Lin) and isinstance(b, Lin):
            d = a.add(b, -1)
            dv = d.value()
        elif isinstance(a, Lin):
            cb = self.concrete(b)
            dv = None if cb is None else a.add(cb, -1).value()
        else:
            ca = self.concrete(a)
            dv = None if ca is None else Lin({}, ca, b.w).add(b, -1).value()
        if dv is not None:
            r = {'eq': dv == 0, 'ne': dv != 0, 'ult': dv < 0, 'ule': dv <= 0, 'ugt': dv > 0, 'uge': dv >= 0,
                 'slt': dv < 0, 'sle': dv <= 0, 'sgt': dv > 0, 'sge': dv >= 0}[pred]
            return (r, None)
        # assumed lower bounds on counter symbols
        if isinstance(a, Lin) and not isinstance(b, Lin) and len(a.t) == 1:
            (sname, co), = a.t.items()
            cb = self.concrete(b)
            if co == 1 and sname in self.lin_lb and cb is not None:
                lo = self.lin_lb[sname] + a.c
                if pred in ('ugt', 'sgt') and lo > cb:
                    return (True, None)
                if pred in ('uge', 'sge') and lo >= cb:
                    return (True, None)
                if pred in ('ult', 'slt') and lo >= cb:
                    return (False, None)
                if pred in ('ule', 'sle') and lo > cb:
                    return (False, None)
                if pred == 'eq' and lo > cb:
                    return (False, None)
                if pred == 'ne' and lo > cb:
                    return (True, None)
        return (None, Cond(pred, a, b))

    def truth(self, c):
        if isinstance(c, BV):
            if c.w != 1:
                raise Unsupported('branch on wide value')
            v = c.value()
            return None if v is None else bool(v)
        if isinstance(c, Cond):
            return None
        if isinstance(c, bool):
            return c
        raise Unsupported('branch on %r' % (c,))

    def negate(self, c):
        if isinstance(c, BV):
            return BV([bnot(c.bits[0])])
        return c.neg()

    def feasible(self, pc):
        seen = set()
        for c in pc:
            if isinstance(c, BV):
                v = c.value()
                if v == 0:
                    return False
                if v == 1:
                    continue
            k = c.key()
            nk = self.negate(c).key()
            if nk in seen:
                return False
            seen.add(k)
        # opaque comparisons re-evaluated with the bits known by now
        for c in pc:
            if isinstance(c, Cond) and isinstance(c.a, BV) and isinstance(c.b, BV):
                try:
                    dec, _ = self.cmp('icmp', c.pred if c.pred != 'eq' else 'eq', c.a, c.b, __import__('llir').I(c.a.w))
                except Unsupported:
                    dec = None
                if dec is not None and dec != c.pos:
                    return False
        # product of single-bit conditions must not vanish
        try:
            p = ONE
            for c in pc:
                if isinstance(c, BV):
                    p = band(p, c.bits[0])
                    if not p:
                        return False
        except Blowup:
            pass
        return True

    def select(self, c, a, b):
        if isinstance(c, BV) and isinstance(a, BV) and isinstance(b, BV):
            try:
                cb = c.bits[0]
                return BV([bite(cb, x, y) for x, y in zip(a.bits, b.bits)])
            except Blowup:
                return NotImplemented
        return NotImplemented

    def refine(self, st, c):
        """learn from an assumed condition: substitute atoms fixed by it through the whole state"""
        env = {}
        if isinstance(c, BV):
            b = c.bits[0]
            atoms = set(a for m in b for a in m)
            if len(atoms) <= 12 and len(b) <= 64:
                for a in atoms:
                    at = atom(a)
                    try:
                        if not band(b, at ^ ONE):
                            env[a] = ONE       # cond implies a
                        elif not band(b, at):
                            env[a] = ZERO      # cond implies not a
                    except Blowup:
                        pass
        elif isinstance(c, Cond) and isinstance(c.a, BV) and isinstance(c.b, BV):
            cb = c.b.value()
            # x <u 2^k (pos)  or  !(x >=u 2^k)
            lt = (c.pred == 'ult' and c.pos) or (c.pred == 'uge' and not c.pos)
            le = (c.pred == 'ule' and c.pos) or (c.pred == 'ugt' and not c.pos)
            if cb is not None and (lt or le):
                bound = cb if lt else cb + 1
                if bound > 0 and bound & (bound - 1) == 0:
                    k = bound.bit_length() - 1
                    for bit in c.a.bits[k:]:
                        if len(bit) == 1 and len(next(iter(bit))) == 1:
                            env[next(iter(next(iter(bit))))] = ZERO
            ge = (c.pred == 'uge' and c.pos) or (c.pred == 'ult' and not c.pos)
            gt = (c.pred == 'ugt' and c.pos) or (c.pred == 'ule' and not c.pos)
            if cb is not None and (ge or gt):
                bound = cb if ge else cb + 1
                if bound > 0 and bound & (bound - 1) == 0:
                    k = bound.bit_length() - 1
                    # x >= 2^k with all bits above k known zero  <=>  bit k is 1
                    if all(bb == ZERO for bb in c.a.bits[k + 1:]) and k < c.a.w:
                        bk = c.a.bits[k]
                        if len(bk) == 1 and len(next(iter(bk))) == 1:
                            env[next(iter(next(iter(bk))))] = ONE
        if env:
            subst_state(st, env)
        return env

    # ---- pointers / offsets
    def off_add(self, off, idx, scale):
        ci = self.concrete(idx)
        if ci is not None:
            if isinstance(idx, BV) and idx.w == 64 and ci >> 63:
                ci -= 1 << 64
            if isinstance(idx, BV) and idx.w == 32 and ci >> 31:
                ci -= 1 << 32
            if isinstance(off, int):
                return off + ci * scale
            return Off(off.c + ci * scale, off.t)
        k = idx.key() if hasattr(idx, 'key') else idx
        if isinstance(idx, Lin):
            terms = [(('lin', s), v * scale) for s, v in idx.t.items()]
            c0 = idx.c * scale
        else:
            terms = [(k, scale)]
            c0 = 0
        if isinstance(off, int):
            return Off(off + c0, terms)
        d = dict(off.t)
        for kk, s in terms:
            d[kk] = d.get(kk, 0) + s
        return Off(off.c + c0, list(d.items()))

    def off_sub(self, a, b):
        if isinstance(a, int) and isinstance(b, int):
            return BV.const((a - b) & ((1 << 64) - 1), 64)
        ta = dict(a.t) if isinstance(a, Off) else {}
        tb = dict(b.t) if isinstance(b, Off) else {}
        ca = a.c if isinstance(a, Off) else a
        cb = b.c if isinstance(b, Off) else b
        if ta == tb:
            return BV.const((ca - cb) & ((1 << 64) - 1), 64)
        d = dict(ta)
        for k, v in tb.items():
            d[k] = d.get(k, 0) - v
        d = {k: v for k, v in d.items() if v}
        if all(isinstance(k, tuple) and len(k) == 2 and k[0] == 'lin' for k in d):
            # cursor - base with the cursor offset a linear counter: the difference is that counter
            return Lin({k[1]: v for k, v in d.items()}, ca - cb, 64)
        raise Unsupported('difference of symbolic offsets')

    def off_key(self, off):
        if isinstance(off, int):
            return off
        if isinstance(off, Off):
            if not off.t:
                return off.c
            return off.key()
        return off

    def off_val(self, off):
        if isinstance(off, int):
            return BV.const(off & ((1 << 64) - 1), 64)
        if isinstance(off, Off):
            if not off.t:
                return BV.const(off.c & ((1 << 64) - 1), 64)
            if len(off.t) == 1 and off.t[0][1] == 1 and isinstance(off.t[0][0], tuple) and off.t[0][0][0] == 'lin':
                return Lin({off.t[0][0][1]: 1}, off.c, 64)
            lin = {}
            for k, s in off.t:
                if isinstance(k, tuple) and k and k[0] == 'lin':
                    lin[k[1]] = s
                else:
                    raise Unsupported('comparison of symbolic offsets')
            return Lin(lin, off.c, 64)
        return off

    def nonnull(self, base):
        return self._nonnull

    def distinct_bases(self, a, b):
        return True

    def null_test(self, pred, p):
        raise Unsupported('null test')

    def alias_test(self, pred, a, b):
        raise Unsupported('alias test')

    def int_to_ptr(self, v):
        raise Unsupported('inttoptr')

    def ptr_bits(self, op, a, b):
        raise Unsupported('bit operation on pointer')

    # ---- calls
    def call(self, name, args, ins, interp, st, fn):
        if name.startswith('llvm.expect'):
            return args[0]
        if name == 'llvm.assume':
            return None
        return NotImplemented

    def opaque_call(self, name, args, ins, interp, st):
        return NotImplemented

    def indirect_call(self, callee, args, ins, interp, st):
        return NotImplemented


def subst_state(st, env):
    for k, v in list(st.env.items()):
        if hasattr(v, 'subst'):
            st.env[k] = v.subst(env)
    for k, (v, t) in list(st.store.items()):
        if hasattr(v, 'subst'):
            st.store[k] = (v.subst(env), t)
    st.pc = [c.subst(env) if hasattr(c, 'subst') else c for c in st.pc]


def cond_bit(c):
    """ANF of an opaque comparison when it has a small one: x <u 2^k, x >=u 2^k (few unknown bits above k), x ==/!= const"""
    if not (isinstance(c, Cond) and isinstance(c.a, BV) and isinstance(c.b, BV)):
        return None
    cb = c.b.value()
    if cb is None:
        return None
    try:
        if c.pred in ('ult', 'uge', 'ule', 'ugt'):
            bound = cb if c.pred in ('ult', 'uge') else cb + 1
            if bound <= 0 or bound & (bound - 1):
                return None
            k = bound.bit_length() - 1
            hi = [b for b in c.a.bits[k:] if b != ZERO]
            if len(hi) > 10:
                return None
            anyhi = ZERO
            for b in hi:
                anyhi = bor(anyhi, b)
            lt = bnot(anyhi)           # x < 2^k
            r = lt if c.pred in ('ult', 'ule') else anyhi
            return r if c.pos else bnot(r)
        if c.pred == 'eq':
            diff = [x ^ (ONE if (cb >> i) & 1 else ZERO) for i, x in enumerate(c.a.bits)]
            nz = [d for d in diff if d != ZERO]
            if len(nz) > 10:
                return None
            acc = ZERO
            for d in nz:
                acc = bor(acc, d)
            r = bnot(acc)
            return r if c.pos else bnot(r)
    except Blowup:
        return None
    return None


def implies(pc, bit_eq_zero):
    """does the conjunction of the single-bit path conditions force the ANF `bit_eq_zero` to 0?
    exact: P * b == 0 where P is the product of the pc bits"""
    p = ONE
    for c in pc:
        if isinstance(c, BV):
            p = band(p, c.bits[0])
        else:
            cbit = cond_bit(c)
            if cbit is not None:
                p = band(p, cbit)
    return not band(p, bit_eq_zero)
