"""Reader for the regular subset of Rust used by src/lib.rs (DESIGN 2.5): #[repr(C)] structs,
extern "C" blocks, type aliases, cfg(feature=...) attributes.  Anything outside the subset inside
an item we need raises RustError (-> INCONCLUSIVE)."""
import re


class RustError(Exception):
    pass


TOK = re.compile(r'''
   (?P<ws>\s+)
 | (?P<lc>//[^\n]*)
 | (?P<bc>/\*.*?\*/)
 | (?P<str>b?"(?:[^"\\]|\\.)*")
 | (?P<chr>b?'(?:[^'\\]|\\.)')
 | (?P<life>'[A-Za-z_]\w*)
 | (?P<num>0x[0-9a-fA-F_]+|\d[\d_]*(?:\.\d+)?(?:[eE][+-]?\d+)?(?:[a-z]\w*)?)
 | (?P<id>[A-Za-z_]\w*!?)
 | (?P<p>->|=>|::|\.\.=|\.\.|&&|\|\||[-+*/%^!&|<>=]=|<<|>>|[#\[\](){}<>,;:=&*!.+\-/%^|?@$~])
''', re.X | re.S)


def tokenize(s):
    out = []
    pos = 0
    line = 1
    n = len(s)
    while pos < n:
        m = TOK.match(s, pos)
        if not m:
            raise RustError('cannot tokenize at line %d: %r' % (line, s[pos:pos + 30]))
        k = m.lastgroup
        t = m.group(k)
        if k not in ('ws', 'lc', 'bc'):
            out.append((k, t, line))
        line += t.count('\n')
        pos = m.end()
    return out


class Src:
    def __init__(self, path, features=()):
        self.path = path
        self.features = set(features)
        self.toks = tokenize(open(path).read())
        self.aliases = {}    # name -> type
        self.structs = {}    # name -> {'fields': [(name, type, line)], 'line': n, 'repr': 'C'|None}
        self.fns = {}        # name -> {'params': [(name,type)], 'ret': type|None, 'line': n, 'variadic': bool}
        self.blocks = 0
        self.uses = {}       # last path component -> full path
        self._scan()

    # ---- cfg evaluation
    def cfg_true(self, toks):
        """toks = tokens inside cfg( ... )"""
        p = [0]

        def ev():
            k, t, _ = toks[p[0]]
            p[0] += 1
            if t in ('not', 'all', 'any'):
                assert toks[p[0]][1] == '('
                p[0] += 1
                vals = []
                while toks[p[0]][1] != ')':
                    vals.append(ev())
                    if toks[p[0]][1] == ',':
                        p[0] += 1
                p[0] += 1
                if t == 'not':
                    return not vals[0]
                return all(vals) if t == 'all' else any(vals)
            if t == 'feature':
                assert toks[p[0]][1] == '='
                v = toks[p[0] + 1][1].strip('"')
                p[0] += 2
                return v in self.features
            # other predicates (target_os, test, ...)
            if p[0] < len(toks) and toks[p[0]][1] == '=':
                p[0] += 2
            return False
        return ev()

    def _scan(self):
        T = self.toks
        i = 0
        n = len(T)
        attrs = []
        depth_stack = []

        def match_close(j, o, c):
            d = 0
            while j < n:
                if T[j][1] == o:
                    d += 1
                elif T[j][1] == c:
                    d -= 1
                    if d == 0:
                        return j
                j += 1
            raise RustError('unbalanced %s' % o)

        def attrs_enabled(attrs):
            for a in attrs:
                if a and a[0][1] == 'cfg':
                    if not self.cfg_true(a[2:-1]):
                        return False
            return True

        def has_repr_c(attrs):
            for a in attrs:
                if a and a[0][1] == 'repr':
                    return any(t[1] == 'C' for t in a)
            return False

        def scan_items(i, end, in_extern):
            attrs = []
            while i < end:
                k, t, ln = T[i]
                if t == '#':
                    j = i + 1
                    if T[j][1] == '!':
                        j += 1
                    e = match_close(j, '[', ']')
                    attrs.append(T[j + 1:e])
                    i = e + 1
                    continue
                if t in ('pub', 'unsafe', 'const', 'async', 'default') and not (t == 'const' and T[i + 1][0] == 'id' and T[i + 2][1] == ':'):
                    # visibility / qualifiers
                    if t == 'pub' and T[i + 1][1] == '(':
                        i = match_close(i + 1, '(', ')') + 1
                    else:
                        i += 1
                    continue
                en = attrs_enabled(attrs)
                if t == 'extern' and T[i + 1][0] == 'str' and T[i + 2][1] == '{':
                    e = match_close(i + 2, '{', '}')
                    if en:
                        if T[i + 1][1] != '"C"':
                            raise RustError('extern block with ABI %s' % T[i + 1][1])
                        self.blocks += 1
                        scan_items(i + 3, e, True)
                    i = e + 1
                    attrs = []
                    continue
                if t == 'mod' and T[i + 2][1] == '{':
                    e = match_close(i + 2, '{', '}')
                    if en:
                        scan_items(i + 3, e, False)
                    i = e + 1
                    attrs = []
                    continue
                if t == 'fn':
                    name = T[i + 1][1]
                    j = i + 2
                    if T[j][1] == '<':
                        j = match_close(j, '<', '>') + 1
                    pe = match_close(j, '(', ')')
                    if in_extern:
                        params, variadic = self._params(T[j + 1:pe])
                        j2 = pe + 1
                        ret = None
                        if T[j2][1] == '->':
                            k2 = j2 + 1
                            while T[k2][1] != ';':
                                k2 += 1
                            ret = self._type(T[j2 + 1:k2])
                            j2 = k2
                        if T[j2][1] != ';':
                            raise RustError('extern fn %s: expected ;' % name)
                        if en:
                            if name in self.fns:
                                raise RustError('extern fn %s declared twice' % name)
                            self.fns[name] = {'params': params, 'ret': ret, 'line': ln, 'variadic': variadic}
                        i = j2 + 1
                    else:
                        # skip body
                        j2 = pe + 1
                        while T[j2][1] not in ('{', ';'):
                            j2 += 1
                        i = (match_close(j2, '{', '}') if T[j2][1] == '{' else j2) + 1
                    attrs = []
                    continue
                if t == 'type' and not in_extern:
                    name = T[i + 1][1]
                    j = i + 2
                    if T[j][1] != '=':
                        raise RustError('type alias form')
                    k2 = j
                    while T[k2][1] != ';':
                        k2 += 1
                    if en:
                        self.aliases[name] = self._type(T[j + 1:k2])
                    i = k2 + 1
                    attrs = []
                    continue
                if t == 'struct':
                    name = T[i + 1][1]
                    j = i + 2
                    if T[j][1] == '<':
                        j = match_close(j, '<', '>') + 1
                    if T[j][1] == '{':
                        e = match_close(j, '{', '}')
                        if en:
                            self.structs[name] = {'fields': self._fields(T[j + 1:e]), 'line': ln,
                                                  'repr': 'C' if has_repr_c(attrs) else None}
                        i = e + 1
                    elif T[j][1] == '(':
                        e = match_close(j, '(', ')')
                        if en:
                            self.structs[name] = {'fields': None, 'line': ln, 'repr': 'C' if has_repr_c(attrs) else None}
                        i = e + 1
                        while T[i][1] != ';':
                            i += 1
                        i += 1
                    else:
                        i = j + 1
                    attrs = []
                    continue
                if t == 'use':
                    k2 = i
                    while T[k2][1] != ';':
                        k2 += 1
                    if en:
                        seg = [x[1] for x in T[i + 1:k2]]
                        if '{' not in seg and seg:
                            self.uses[seg[-1]] = ''.join(seg)
                    i = k2 + 1
                    attrs = []
                    continue
                # skip any other item: advance to matching ; or {...}
                j = i
                while j < end and T[j][1] not in (';', '{'):
                    if T[j][1] == '(':
                        j = match_close(j, '(', ')')
                    elif T[j][1] == '[':
                        j = match_close(j, '[', ']')
                    j += 1
                if j < end and T[j][1] == '{':
                    j = match_close(j, '{', '}')
                    # items like `static X: T = expr {..};` are not used in lib.rs
                i = j + 1
                attrs = []
            return i
        scan_items(0, n, False)

    # ---- sub-parsers
    def _split(self, toks, sep=','):
        out = []
        cur = []
        d = 0
        for t in toks:
            if t[1] in '([{<' and t[1] != '->':
                d += 1
            elif t[1] in ')]}>' and t[1] != '->':
                d -= 1
            if t[1] == sep and d == 0:
                out.append(cur)
                cur = []
            else:
                cur.append(t)
        if cur:
            out.append(cur)
        return out

    def _params(self, toks):
        ps = []
        variadic = False
        for part in self._split(toks):
            part = self._strip_attrs(part)
            if not part:
                continue
            if part[0][1] in ('...', '..') :
                variadic = True
                continue
            if part[1][1] != ':':
                raise RustError('parameter form: %s' % ' '.join(t[1] for t in part))
            if len(part) > 2 and part[2][1] in ('..', '...'):
                variadic = True
                continue
            ps.append((part[0][1], self._type(part[2:])))
        return ps, variadic

    def _strip_attrs(self, part):
        while part and part[0][1] == '#':
            d = 0
            j = 1
            while j < len(part):
                if part[j][1] == '[':
                    d += 1
                elif part[j][1] == ']':
                    d -= 1
                    if d == 0:
                        break
                j += 1
            part = part[j + 1:]
        return part

    def _fields(self, toks):
        fs = []
        for part in self._split(toks):
            part = self._strip_attrs(part)
            if not part:
                continue
            if part[0][1] == 'pub':
                part = part[1:]
                if part and part[0][1] == '(':
                    d = 0
                    j = 0
                    while True:
                        if part[j][1] == '(':
                            d += 1
                        elif part[j][1] == ')':
                            d -= 1
                            if d == 0:
                                break
                        j += 1
                    part = part[j + 1:]
            if len(part) < 3 or part[1][1] != ':':
                raise RustError('field form: %s' % ' '.join(t[1] for t in part))
            fs.append((part[0][1], self._type(part[2:]), part[0][2]))
        return fs

    def _type(self, toks):
        """-> nested tuples: ('path', name) ('ptr', 'const'|'mut'|'ref'|'refmut', T) ('array', T, n)
        ('fn', [T], T|None, abi) ('option', T) ('unit',)"""
        t, rest = self._type1(list(toks))
        if rest:
            raise RustError('trailing tokens in type: %s' % ' '.join(x[1] for x in rest))
        return t

    def _type1(self, ts):
        if not ts:
            raise RustError('empty type')
        t = ts[0][1]
        if t == '*':
            q = ts[1][1]
            if q not in ('const', 'mut'):
                raise RustError('raw pointer qualifier')
            inner, rest = self._type1(ts[2:])
            return ('ptr', q, inner), rest
        if t == '&':
            j = 1
            if ts[j][0] == 'life':
                j += 1
            q = 'ref'
            if ts[j][1] == 'mut':
                q = 'refmut'
                j += 1
            inner, rest = self._type1(ts[j:])
            return ('ptr', q, inner), rest
        if t == '[':
            d = 0
            j = 0
            while True:
                if ts[j][1] == '[':
                    d += 1
                elif ts[j][1] == ']':
                    d -= 1
                    if d == 0:
                        break
                j += 1
            inner = ts[1:j]
            parts = self._split(inner, ';')
            el = self._type(parts[0])
            if len(parts) == 1:
                return ('slice', el), ts[j + 1:]
            n = self._const(parts[1])
            return ('array', el, n), ts[j + 1:]
        if t == '(':
            if ts[1][1] == ')':
                return ('unit',), ts[2:]
            raise RustError('tuple type')
        if t in ('unsafe', 'extern', 'fn'):
            j = 0
            abi = 'Rust'
            if ts[j][1] == 'unsafe':
                j += 1
            if ts[j][1] == 'extern':
                j += 1
                abi = 'C'
                if ts[j][0] == 'str':
                    abi = ts[j][1].strip('"')
                    j += 1
            if ts[j][1] != 'fn':
                raise RustError('fn type form')
            j += 1
            d = 0
            k = j
            while True:
                if ts[k][1] == '(':
                    d += 1
                elif ts[k][1] == ')':
                    d -= 1
                    if d == 0:
                        break
                k += 1
            params = []
            for part in self._split(ts[j + 1:k]):
                if len(part) > 1 and part[1][1] == ':' and part[0][0] == 'id':
                    part = part[2:]
                params.append(self._type(part))
            rest = ts[k + 1:]
            ret = None
            if rest and rest[0][1] == '->':
                ret, rest = self._type1(rest[1:])
            return ('fn', params, ret, abi), rest
        if ts[0][0] == 'id':
            # path
            j = 0
            segs = [ts[0][1]]
            j = 1
            while j + 1 < len(ts) and ts[j][1] == '::' and ts[j + 1][0] == 'id':
                segs.append(ts[j + 1][1])
                j += 2
            name = segs[-1]
            if j < len(ts) and ts[j][1] == '<':
                d = 0
                k = j
                while True:
                    if ts[k][1] == '<':
                        d += 1
                    elif ts[k][1] == '>':
                        d -= 1
                        if d == 0:
                            break
                    elif ts[k][1] == '>>':
                        raise RustError('>> in generics')
                    k += 1
                args = [self._type(p) for p in self._split(ts[j + 1:k])]
                if name == 'Option' and len(args) == 1:
                    return ('option', args[0]), ts[k + 1:]
                raise RustError('generic type %s' % name)
            return ('path', name), ts[j:]
        raise RustError('type form: %s' % ' '.join(x[1] for x in ts))

    def _const(self, toks):
        s = ''.join(t[1] for t in toks).replace('_', '')
        s = re.sub(r'(usize|u32|u64|i32)$', '', s)
        try:
            return int(s, 0)
        except ValueError:
            raise RustError('array length %r is not a literal' % s)


PRIM = {'f32': 'f32', 'f64': 'f64', 'u8': 'u8', 'u16': 'u16', 'u32': 'u32', 'u64': 'u64', 'i8': 'i8', 'i16': 'i16',
        'i32': 'i32', 'i64': 'i64', 'usize': 'u64', 'isize': 'i64', 'bool': 'bool', 'c_int': 'i32', 'c_uint': 'u32',
        'c_char': 'c8', 'c_void': 'void', 'c_long': 'i64', 'c_ulong': 'u64', 'c_double': 'f64', 'c_float': 'f32',
        'c_short': 'i16', 'c_ushort': 'u16', 'c_uchar': 'u8', 'c_schar': 'i8', 'c_longlong': 'i64', 'c_ulonglong': 'u64'}


def cls(src, t, depth=0):
    """machine class of a Rust type (same vocabulary as dwarf.cls)"""
    if depth > 30:
        raise RustError('alias cycle')
    k = t[0]
    if k == 'path':
        n = t[1]
        if n in src.aliases:
            return cls(src, src.aliases[n], depth + 1)
        if n in src.structs:
            return ('struct', n)
        if n in PRIM:
            return PRIM[n]
        raise RustError('unknown type name %s' % n)
    if k == 'ptr':
        inner = t[2]
        if inner[0] == 'slice':
            raise RustError('fat pointer &[T] in FFI position')
        return ('ptr', cls(src, inner, depth + 1))
    if k == 'array':
        return ('array', cls(src, t[1], depth + 1), t[2])
    if k == 'fn':
        if t[3] != 'C':
            return ('fn-rustabi',)
        return ('fn', cls(src, t[2], depth + 1) if t[2] else 'void', tuple(cls(src, p, depth + 1) for p in t[1]))
    if k == 'option':
        c = cls(src, t[1], depth + 1)
        if isinstance(c, tuple) and c[0] in ('fn', 'ptr'):
            return c
        raise RustError('Option of non-pointer in FFI position')
    if k == 'unit':
        return 'void'
    raise RustError('type kind %s' % k)


SIZES = {'f32': (4, 4), 'f64': (8, 8), 'u8': (1, 1), 'i8': (1, 1), 'c8': (1, 1), 'bool': (1, 1), 'u16': (2, 2), 'i16': (2, 2),
         'u32': (4, 4), 'i32': (4, 4), 'u64': (8, 8), 'i64': (8, 8)}


def layout(src, c, memo=None):
    """(size, align) of a class by the repr(C) algorithm on x86-64; structs by name from src"""
    if isinstance(c, str):
        if c in SIZES:
            return SIZES[c]
        raise RustError('no size for %s' % c)
    if c[0] in ('ptr', 'fn'):
        return (8, 8)
    if c[0] == 'array':
        s, a = layout(src, c[1], memo)
        return (s * c[2], a)
    if c[0] == 'struct':
        return struct_layout(src, c[1], memo)[:2]
    raise RustError('no layout for %r' % (c,))


def struct_layout(src, name, memo=None):
    """-> (size, align, [(field, offset, size, cls)])"""
    memo = memo if memo is not None else {}
    if name in memo:
        if memo[name] is None:
            raise RustError('recursive struct %s' % name)
        return memo[name]
    memo[name] = None
    st = src.structs[name]
    if st['repr'] != 'C':
        raise RustError('struct %s is not #[repr(C)]' % name)
    off = 0
    al = 1
    fl = []
    for fn_, ft, _ in st['fields']:
        c = cls(src, ft)
        s, a = layout(src, c, memo)
        off = (off + a - 1) // a * a
        fl.append((fn_, off, s, c))
        off += s
        al = max(al, a)
    size = (off + al - 1) // al * al
    memo[name] = (size, al, fl)
    return memo[name]
