"""counted loops, independent of how they are written (count-down, index, walking pointer; tested at the top or - behind an
entry guard - at the bottom).

Induction over the loop variables: every integer / pointer-offset variable advances by one constant step on every back
path, so at the start of pass t (t = 0, 1, ...) it holds init + t * step.  With t = n - d (d = passes still to do, n the
count the loop is meant to run) every guard over these variables becomes a univariate linear condition in d; its truth
set is decided exactly by evaluating it at the integer points around its threshold.  The loop runs its effect exactly n
times iff, with lo the smallest count that reaches the loop at all (0 for a loop tested at the top, 1 behind `if (n)`),
   * every path that goes round again is taken exactly for d >= lo + 1 and performs the effect once,
   * every path that leaves is taken exactly for d == lo and performs the effect lo times,
   * counts below lo never reach the loop and see no effect.
Everything is decided on symbolic terms; nothing is executed."""
import sympy as sp
from symx import Unsupported

REL = {'<': lambda s: s < 0, '<=': lambda s: s <= 0, '>': lambda s: s > 0, '>=': lambda s: s >= 0, '==': lambda s: s == 0, '!=': lambda s: s != 0}
MIRROR = {'<': '>', '>': '<', '<=': '>=', '>=': '<=', '==': '==', '!=': '!='}
NEG = {'<': '>=', '>': '<=', '<=': '>', '>=': '<', '==': '!=', '!=': '=='}


class Core:
    def __init__(self, n, variables, pre=()):
        """n: symbol or number; variables: {symbol: (init expr, step expr)}; pre: conditions (rel, a, b, unsigned) over n only
        under which the loop is reached"""
        self.n = sp.sympify(n)
        self.t = sp.Symbol('t__', integer=True, nonnegative=True)
        self.d = sp.Symbol('d__', integer=True)
        self.psyms = set(variables)
        self.sigma = {}
        for s, (i0, stp) in variables.items():
            stp = sp.expand(sp.sympify(stp))
            if stp.free_symbols & self.psyms:
                raise Unsupported('loop variable %s does not advance by a constant' % s)
            self.sigma[s] = sp.sympify(i0) + stp * self.t
        pre = list(pre)
        for rel, a, b, uns in pre:
            fs = sp.sympify(a).free_symbols | sp.sympify(b).free_symbols
            if not fs <= (self.n.free_symbols or set()):
                raise Unsupported('the loop is reached under a condition on %s' % ', '.join(sorted(map(str, fs))))
        if self.n.free_symbols:
            sub = {list(self.n.free_symbols)[0]: self.d} if self.n.is_Symbol else None
            if sub is None:
                raise Unsupported('count %s is not a symbol' % self.n)
            vals = self._range([(c, sub) for c in pre], 0)
            tr = [all(self._truth(c, sub, v) for c in pre) for v in vals]
            if True not in tr:
                raise Unsupported('the loop is never reached')
            self.lo = vals[tr.index(True)]
            if not all(tr[tr.index(True):]):
                raise Unsupported('the loop is reached for some counts above %d only' % self.lo)
        else:
            if pre:
                raise Unsupported('constant count behind a guard')
            self.lo = 0

    def at(self, e):
        """value at the start of pass t, as a function of t (and the parameters)"""
        return sp.expand(sp.sympify(e).subs(self.sigma, simultaneous=True))

    def _sub(self):
        sub = {k: sp.sympify(v).subs(self.t, self.n - self.d) for k, v in self.sigma.items()}
        return sub

    def _lin(self, c, sub):
        rel, a, b, uns = c
        e = sp.expand((sp.sympify(a) - sp.sympify(b)).subs(sub, simultaneous=True))
        bad = e.free_symbols & (self.n.free_symbols | {self.t} | self.psyms)
        if bad:
            raise Unsupported('guard (%s %s %s) is not a function of the remaining count' % (a, rel, b))
        if e.free_symbols and sp.Poly(e, self.d).degree() > 1:
            raise Unsupported('guard (%s %s %s) is not linear' % (a, rel, b))
        return e

    def _range(self, conds, lo):
        hi = lo + 3
        for c, sub in conds:
            e = self._lin(c, sub)
            a = e.coeff(self.d, 1)
            if a != 0:
                p = sp.simplify(-e.coeff(self.d, 0) / a)
                if not p.is_number:
                    raise Unsupported('guard (%s %s %s) has a symbolic threshold' % (c[1], c[0], c[2]))
                hi = max(hi, int(sp.ceiling(p)) + 2)
        if hi - lo > 600:
            raise Unsupported('guard threshold far from the count')
        return list(range(lo, hi + 1))

    def _truth(self, c, sub, v):
        rel, a, b, uns = c
        e = self._lin(c, sub).subs(self.d, v)
        e = sp.factor(e) if e.free_symbols else e
        sg = 0 if e.is_zero else (1 if e.is_positive else (-1 if e.is_negative else None))
        if sg is None:
            raise Unsupported('sign of %s is open' % e)
        if uns and rel in ('<', '<=', '>', '>='):
            for side in (a, b):
                sv = sp.expand(sp.sympify(side).subs(sub, simultaneous=True).subs(self.d, v))
                if sv.is_negative:
                    raise Unsupported('unsigned comparison of a value that wrapped below zero')
        return REL[rel](sg)

    def taken(self, conds, want):
        """conds: the guards of one path (rel, a, b, unsigned).  Is the path taken exactly for the remaining counts
        d >= lo with want(d)?  -> None, or a remaining count at which it is not"""
        sub = self._sub()
        cs = [(c, sub) for c in conds]
        hi = None
        if not self.n.free_symbols:
            hi = int(self.n)
        for v in self._range(cs, self.lo):
            if hi is not None and v > hi:
                break
            got = all(self._truth(c, sub, v) for c, _ in cs)
            if got != want(v):
                return v
        return None

    def verdicts(self, backs, finals):
        """backs / finals: [(guards, effect count 0|1|None)].  -> list of problem texts (empty: exactly n effects).
        With k the number of effects on the way out (0: tested at the top, 1: at the bottom) the loop head sees d >= k remaining
        passes provided the loop is only reached with n >= k (self.lo, the smallest count that reaches it, may be larger: a
        redundant `if (n == 0) return` in front of a loop tested at the top); repeating paths must be taken exactly for d >= k + 1
        and leaving paths exactly for d == k."""
        probs = []
        ks = set(k for g, k in finals if k is not None)
        if len(ks) != 1:
            if len(ks) > 1:
                raise Unsupported('ways out of the loop differ in the work they do')
            return probs
        k0 = list(ks)[0]
        reach = self.lo if self.n.free_symbols else int(self.n)
        if reach < k0:
            probs.append('the last pass does the work once more although the loop is entered with a count of %d' % reach)
            return probs
        self.lo = k0
        lo = k0
        for g, k in backs:
            if k is None:
                continue
            if k == 0:
                probs.append('a repeating pass does nothing')
                continue
            ce = self.taken(g, lambda v: v >= lo + 1)
            if ce is not None:
                probs.append('with %d pass(es) left the loop %s' % (ce, 'stops' if ce >= lo + 1 else 'goes on'))
        for g, k in finals:
            if k is None:
                continue
            ce = self.taken(g, lambda v: v == lo)
            if ce is not None:
                probs.append('with %d pass(es) left the loop %s' % (ce, 'is left' if ce != lo else 'is not left'))
        return probs


# ---------------------------------------------------------------- ALG adapter (sympy terms, alg.Cond)
def alg_conds(pc, psyms):
    """guards of a path that speak about the loop variables -> [(rel, a, b, unsigned)]"""
    import alg
    out = []
    for c in pc:
        fs = set()
        todo = [c]
        while todo:
            a = todo.pop()
            if isinstance(a, alg.Cond):
                fs |= sp.sympify(a.a).free_symbols | sp.sympify(a.b).free_symbols
            elif isinstance(a, alg.BoolOp):
                todo.extend(a.args)
            else:
                raise Unsupported('condition %r' % (a,))
        if fs & psyms:
            if not isinstance(c, alg.Cond) or c.kind != 'icmp':
                raise Unsupported('compound guard %r' % (c,))
            out.append((c.rel(), c.a, c.b, str(c.pred).startswith('u')))
    return out


def from_alg(tx, n, skip=()):
    """looptx transformer over ALG values -> (Core, accumulator phi name or None); phis named in skip are data, not counters"""
    from symx import Ptr, TOP
    import alg
    if not tx.backs:
        raise Unsupported('no back path')
    variables = {}
    acc = None
    for ph in tx.phis:
        s = tx.sym[ph.res]
        i0 = tx.init[ph.res]
        if ph.res in skip:
            continue
        if ph.ty.is_fp:
            if acc is not None:
                raise Unsupported('two floating-point loop variables')
            acc = ph.res
            continue
        steps = set()
        for s1, nv in tx.backs:
            v = nv[ph.res]
            if isinstance(s, Ptr):
                if not isinstance(v, Ptr) or v.base != s.base or not isinstance(i0, Ptr) or i0.base != s.base:
                    raise Unsupported('cursor %s changes its array' % ph.res)
                steps.add(sp.expand(sp.sympify(v.off) - s.off))
            else:
                if isinstance(v, Ptr) or v is TOP:
                    raise Unsupported('loop variable %s is not an integer' % ph.res)
                steps.add(sp.expand(sp.sympify(v) - s))
        if len(steps) != 1:
            raise Unsupported('loop variable %s advances differently on different paths' % ph.res)
        if isinstance(s, Ptr):
            variables[s.off] = (i0.off, steps.pop())
        else:
            variables[s] = (i0, steps.pop())
    pre = []
    flat = []
    todo = list(tx.pre.pc)
    while todo:
        c = todo.pop(0)
        if isinstance(c, alg.BoolOp) and c.op == 'and':
            todo = list(c.args) + todo       # (p && n): both hold on the way to the loop
        else:
            flat.append(c)
    for c in flat:
        if not isinstance(c, alg.Cond) or c.kind != 'icmp':
            raise Unsupported('the loop is reached under %r' % (c,))
        fs = sp.sympify(c.a).free_symbols | sp.sympify(c.b).free_symbols
        if fs and all(str(x).startswith('&') for x in fs):
            continue      # a test of a pointer argument against null says nothing about the count
        pre.append((c.rel(), c.a, c.b, str(c.pred).startswith('u')))
    return Core(n, variables, pre), acc


# ---------------------------------------------------------------- BIT adapter (bit.Lin counters, bit.Off cursors, bit.Cond)
def lin_expr(v):
    """bit.Lin / bit.Off over counters / constant -> sympy term, or None"""
    import bit
    if isinstance(v, bit.Lin):
        return sp.Add(*[c * sp.Symbol(str(k), integer=True) for k, c in v.t.items()]) + v.c
    if isinstance(v, bit.Off):
        e = sp.Integer(v.c)
        for k, s in v.t:
            if not (isinstance(k, tuple) and len(k) == 2 and k[0] == 'lin'):
                return None
            e += s * sp.Symbol(str(k[1]), integer=True)
        return e
    if isinstance(v, bool):
        return sp.Integer(int(v))
    if isinstance(v, int):
        return sp.Integer(v)
    if isinstance(v, bit.BV):
        c = v.value()
        return sp.Integer(c) if c is not None else None
    return None


BITPRED = {'eq': ('==', False), 'ne': ('!=', False), 'ult': ('<', True), 'ule': ('<=', True), 'ugt': ('>', True), 'uge': ('>=', True),
           'slt': ('<', False), 'sle': ('<=', False), 'sgt': ('>', False), 'sge': ('>=', False)}


def bit_conds(pc, psyms):
    """-> (guards over the loop variables [(rel, a, b, unsigned)], the other conditions of the path)"""
    import bit
    out, rest = [], []
    for c in pc:
        if isinstance(c, bit.Cond):
            a, b = lin_expr(c.a), lin_expr(c.b)
            if a is not None and b is not None and ((a.free_symbols | b.free_symbols) & psyms):
                if c.pred not in BITPRED:
                    raise Unsupported('guard %r' % (c,))
                rel, uns = BITPRED[c.pred]
                out.append((rel if c.pos else NEG[rel], a, b, uns))
                continue
        rest.append(c)
    return out, rest
