"""Statement-tree comparison for the AFF engine: a textbook algorithm written with a small builder (loops over natural
indices with direction, assignments over ld(array, index) terms, early exits, conditionals, calls, folds) is compared with the
statement tree scev.Aff derived from the code.  Accepted differences: how an index is spelled (counter arithmetic, walking
pointers), operand order, temporaries, when an array that the function never writes is read.  Reported:
  point differences (same tree shape; a bound, index, operand, operator, guard or return value differs)   -> violation
  a missing statement (the code's items are the specification's with some left out)                      -> violation
  a different shape (other loop structure, reordered statements)                                          -> inconclusive"""
import itertools
import sympy as sp
import scev
from scev import ld, sel, Cmp
from symx import Unsupported


class Spec:
    """builder that numbers memory states exactly like scev.Aff.seq"""
    def __init__(self, elem=8):
        self.stack = [['', 0, []]]
        self.elem = elem
        self.folds = {}

    # --- terms
    def L(self, arr, idx):
        path, mem, _ = self.stack[-1]
        return ld(sp.Symbol(arr, real=True), sp.expand(idx), sp.Symbol('%s:%d' % (path, mem)))

    def ptr(self, arr, idx=0):
        return sp.Symbol(arr, real=True) + self.elem * sp.expand(idx)

    # --- items
    def set(self, arr, idx, val):
        top = self.stack[-1]
        top[2].append(('store', sp.Symbol(arr, real=True), sp.expand(idx), val, None))
        top[1] += 1

    def call(self, name, *args):
        top = self.stack[-1]
        top[2].append(('call', name, list(args), None))
        top[1] += 1

    def ret(self, v=None):
        self.stack[-1][2].append(('ret', v, None))

    def exitif(self, cmp_, retval):
        self.stack[-1][2].append(('exitif', cmp_, [('ret', retval, None)], None))

    def loop(self, var, lo, hi, direction='asc', folds=None):
        return _Loop(self, var, lo, hi, direction, folds if folds is not None else {})

    def cond(self, cmp_):
        return _If(self, cmp_)

    def tree(self):
        return self.stack[0][2]


class _Loop:
    def __init__(self, s, var, lo, hi, direction, folds):
        self.s, self.var, self.lo, self.hi, self.dir, self.folds = s, var, lo, hi, direction, folds

    def __enter__(self):
        path, mem, _ = self.s.stack[-1]
        self.s.stack.append(['%s/%d' % (path, mem), 0, []])
        v = sp.Symbol(self.var, integer=True, nonnegative=True)
        return v

    def __exit__(self, *a):
        body = self.s.stack.pop()[2]
        top = self.s.stack[-1]
        v = sp.Symbol(self.var, integer=True, nonnegative=True)
        top[2].append(('for', v, sp.sympify(self.lo), sp.sympify(self.hi), self.dir, body, self.folds))
        top[1] += 1
        return False


class _If:
    def __init__(self, s, cmp_):
        self.s, self.cmp = s, cmp_

    def __enter__(self):
        path, mem, _ = self.s.stack[-1]
        self.s.stack.append(['%s/%dt' % (path, mem), 0, []])

    def __exit__(self, *a):
        body = self.s.stack.pop()[2]
        top = self.s.stack[-1]
        top[2].append(('if', self.cmp, body, [], None))
        top[1] += 1
        return False


def fold(name):
    return sp.Symbol('F_' + name, real=True)


# ---------------------------------------------------------------------------------------------------------------------
class Diff(Exception):
    def __init__(self, kind, msg, loc=None):
        Exception.__init__(self, msg)
        self.kind, self.msg, self.loc = kind, msg, loc


def written_arrays(tree, out=None):
    out = set() if out is None else out
    for t in tree:
        if t[0] == 'store':
            out.add(str(t[1]))
        elif t[0] == 'loop':
            written_arrays(t[3], out)
        elif t[0] == 'for':
            written_arrays(t[5], out)
        elif t[0] == 'exitif':
            written_arrays(t[2], out)
        elif t[0] == 'if':
            written_arrays(t[2], out)
            written_arrays(t[3], out)
        elif t[0] == 'call':
            for x in t[2]:
                if isinstance(x, sp.Basic):
                    out.update(str(s) for s in x.free_symbols if not s.is_integer)
    return out


ANY = sp.Symbol('anytime')


def norm_expr(e, written):
    if not isinstance(e, sp.Basic):
        return e

    def fix(b, i, t):
        return ld(b, sp.expand(i), t if str(b) in written else ANY)
    e = e.replace(ld, fix)
    return e


_CTX = {'stores': []}


def _parse_tag(t):
    s_ = str(t)
    if ':' not in s_:
        return None
    pth, m = s_.rsplit(':', 1)
    comps = [c for c in pth.split('/') if c]
    return comps, int(m)


def _lvl(comp):
    return int(''.join(ch for ch in comp if ch.isdigit()))


def _between(t1, t2):
    """stores (records of _CTX['stores']) that may execute between the memory states t1 and t2 (over-approximation)"""
    p1, m1 = t1
    p2, m2 = t2
    k = 0
    while k < len(p1) and k < len(p2) and p1[k] == p2[k]:
        k += 1
    pc = p1[:k]
    lo1 = _lvl(p1[k]) if len(p1) > k else m1
    hi1 = _lvl(p1[k]) if len(p1) > k else m1 - 1
    lo2 = _lvl(p2[k]) if len(p2) > k else m2
    hi2 = _lvl(p2[k]) if len(p2) > k else m2 - 1
    lo, hi = min(lo1, lo2), max(hi1, hi2)
    out = []
    for st in _CTX['stores']:
        ps = st['path']
        if ps[:k] != pc:
            continue
        idx = _lvl(ps[k]) if len(ps) > k else st['mem']
        if lo <= idx <= hi:
            out.append((st, k))
    return out


def _tag_justified(a, x, y, facts):
    """x and y are equal once the memory-state tags of loads are ignored: every load read at different states on the two sides
    must be of a cell that no store between the two states can write"""
    lx = {}
    for t in x.atoms(sp.Function):
        if t.func == ld:
            lx.setdefault((t.args[0], sp.expand(t.args[1])), set()).add(t.args[2])
    ly = {}
    for t in y.atoms(sp.Function):
        if t.func == ld:
            ly.setdefault((t.args[0], sp.expand(t.args[1])), set()).add(t.args[2])
    for key in set(lx) | set(ly):
        tags = lx.get(key, set()) | ly.get(key, set())
        tags = [t for t in tags if t != ANY]
        if len(tags) <= 1:
            continue
        parsed = [_parse_tag(t) for t in tags]
        if any(p_ is None for p_ in parsed):
            return False
        base, idx = key
        for i in range(len(parsed)):
            for j in range(i + 1, len(parsed)):
                for st, depth in _between(parsed[i], parsed[j]):
                    if st['base'] is None:
                        return False          # a call in between may write anything
                    if str(st['base']) != str(base):
                        continue
                    # counters of loops below the common level are other iterations: fresh symbols with the same ranges
                    sub = {}
                    f2 = list(facts)
                    for q, (cnt, T) in enumerate(st['loops']):
                        if q >= depth_loops(st, depth):
                            fr = sp.Symbol('o_%s' % cnt, integer=True, nonnegative=True)
                            sub[cnt] = fr
                            f2.append(fr)
                            if T is not None:
                                f2.append(sp.sympify(T).subs(sub) - 1 - fr)
                    sidx = sp.expand(sp.sympify(st['idx']).subs(sub))
                    d = sp.expand(sidx - idx)
                    try:
                        if not (a.prove_ge0(d - 1, f2) or a.prove_ge0(-d - 1, f2)):
                            return False
                    except Exception:
                        return False
    return True


def depth_loops(st, depth):
    """number of enclosing loops of the store that belong to the common prefix (path components that are loops, not if-arms)"""
    return sum(1 for c in st['path'][:depth] if c.isdigit())


def same(a, x, y, facts):
    """exact-real equality of two value terms"""
    if x is None or y is None:
        return x is None and y is None
    d = x - y
    if d == 0:
        return True
    d = sp.expand(d)
    if d == 0:
        return True
    try:
        if sp.simplify(d) == 0:
            return True
    except Exception:
        pass
    if isinstance(x, sp.Basic) and isinstance(y, sp.Basic) and (x.has(ld) or y.has(ld)):
        strip = lambda e: e.replace(ld, lambda b, i, t: ld(b, sp.expand(i), ANY))
        try:
            if sp.expand(strip(x) - strip(y)) == 0 and _tag_justified(a, x, y, facts):
                return True
        except Exception:
            pass
    if isinstance(x, sp.Basic) and not (x.has(ld) or y.has(ld) or x.has(sel) or y.has(sel)):
        try:
            return a.prove_eq(x, y, facts)
        except Exception:
            return False
    return False


def same_cmp(a, c1, c2, facts):
    n1, n2 = c1.norm(), c2.norm()
    if getattr(c2, 'threshold', False) and n1[0] in ('lt', 'le') and same(a, n1[1], n2[1], facts):
        # failure guard "measure below a threshold": any threshold that rejects an exactly vanishing measure is accepted
        t = sp.sympify(n1[2])
        return bool(t.is_number and ((n1[0] == 'lt' and t > 0) or (n1[0] == 'le' and t >= 0)))
    if n1[0] != n2[0]:
        # different predicates over the same operands agree when the facts exclude the orderings on which they differ
        REG = {'lt': {'<'}, 'le': {'<', '='}, 'gt': {'>'}, 'ge': {'>', '='}, 'eq': {'='}, 'ne': {'<', '>'}}
        p1, p2 = c1.pred, c2.pred
        x1, y1, x2, y2 = c1.a, c1.b, c2.a, c2.b
        if getattr(c1, 'fp', False) or getattr(c2, 'fp', False) or p1 not in REG or p2 not in REG:
            return False
        if same(a, x1, y2, facts) and same(a, y1, x2, facts):
            p2 = {'lt': 'gt', 'gt': 'lt', 'le': 'ge', 'ge': 'le'}.get(p2, p2)
        elif not (same(a, x1, x2, facts) and same(a, y1, y2, facts)):
            return False
        try:
            d = sp.expand(sp.sympify(x1) - sp.sympify(y1))
            for reg in REG[p1] ^ REG[p2]:
                if reg == '<' and not a.prove_ge0(d, facts):
                    return False
                if reg == '>' and not a.prove_ge0(-d, facts):
                    return False
                if reg == '=' and not (a.prove_ge0(d - 1, facts) or a.prove_ge0(-d - 1, facts)):
                    return False
            return True
        except Exception:
            return False
    if same(a, n1[1], n2[1], facts) and same(a, n1[2], n2[2], facts):
        return True
    if n1[0] in ('eq', 'ne') and same(a, n1[1], n2[2], facts) and same(a, n1[2], n2[1], facts):
        return True
    return False


def describe(t):
    if t[0] == 'store':
        return '%s[%s] = %s' % (t[1], t[2], t[3])
    if t[0] in ('loop',):
        return 'loop of %s steps' % (t[2],)
    if t[0] == 'for':
        return 'loop %s in [%s, %s) %s' % (t[1], t[2], t[3], t[4])
    if t[0] == 'call':
        return 'call %s(%s)' % (t[1], ', '.join(map(str, t[2])))
    if t[0] == 'exitif':
        return 'if %r return %s' % (t[1], t[2][-1][1] if t[2] else '?')
    if t[0] == 'if':
        return 'if %r {...}' % (t[1],)
    if t[0] == 'ret':
        return 'return %s' % (t[1],)
    return str(t[0])


KIND = {'loop': 'for', 'for': 'for'}


def kinds(tree):
    return [KIND.get(t[0], t[0]) for t in tree]


class Matcher:
    def __init__(self, a, impl, spec, base_facts=(), tie_free=False):
        self.a = a
        self.tie_free = tie_free
        self.written = written_arrays(impl) | written_arrays(spec)
        self.impl, self.spec = impl, spec
        self.base = list(base_facts)
        self.bind = {}       # impl opaque symbol -> spec fold symbol
        self.nstmt = 0
        _CTX['stores'] = []
        self.collect(impl, [], [])

    def collect(self, items, path, loops):
        mem = 0
        for t in items:
            if t[0] == 'store':
                _CTX['stores'].append(dict(path=list(path), mem=mem, base=t[1], idx=t[2], loops=list(loops)))
                mem += 1
            elif t[0] == 'call':
                _CTX['stores'].append(dict(path=list(path), mem=mem, base=None, idx=None, loops=list(loops)))
                mem += 1
            elif t[0] == 'loop':
                self.collect(t[3], path + [str(mem)], loops + [(t[1], t[2])])
                mem += 1
            elif t[0] == 'if':
                self.collect(t[2], path + ['%dt' % mem], loops)
                self.collect(t[3], path + ['%de' % mem], loops)
                mem += 1
            elif t[0] == 'exitif':
                self.collect(t[2], path + ['%dx' % mem], loops)

    def N(self, e):
        if isinstance(e, sp.Basic) and self.bind:
            e = e.subs(self.bind, simultaneous=True)
        return norm_expr(e, self.written)

    def run(self):
        self.seq(self.impl, self.spec, list(self.base), {})
        return self.nstmt

    def seq(self, impl, spec, facts, sub):
        impl = [t for t in impl if not (t[0] == 'ret' and t[1] is None)]
        spec = [t for t in spec if not (t[0] == 'ret' and t[1] is None)]
        # empty loops (no items, no folds) carry no behaviour
        impl = [t for t in impl if not (t[0] == 'loop' and not t[3] and not self.loop_folds(t))]
        ki, ks = kinds(impl), kinds(spec)
        if ki != ks:
            if len(ki) < len(ks):
                # is the code the specification with statements left out?
                for drop in range(1, min(3, len(ks) - len(ki) + 1) + 0):
                    pass
                k = len(ks) - len(ki)
                if k <= 2:
                    for keep in itertools.combinations(range(len(ks)), len(ki)):
                        if [ks[x] for x in keep] == ki:
                            try:
                                n0 = self.nstmt
                                b0 = dict(self.bind)
                                self.seq(impl, [spec[x] for x in keep], facts, sub)
                                missing = [describe(self.S(spec[x], sub)) for x in range(len(ks)) if x not in keep]
                                raise Diff('point', 'statement missing: %s' % '; '.join(missing))
                            except Diff as d:
                                if d.msg.startswith('statement missing'):
                                    raise
                                self.nstmt = n0
                                self.bind = b0
            raise Diff('shape', 'statement structure differs: code has [%s], the reference algorithm [%s]' % (', '.join(ki), ', '.join(ks)))
        for ti, ts in zip(impl, spec):
            self.item(ti, ts, facts, sub)

    def S(self, t, sub):
        """apply the index substitution to a spec item (for messages)"""
        if t[0] == 'store':
            return ('store', t[1], sp.expand(t[2].subs(sub)), t[3].subs(sub) if isinstance(t[3], sp.Basic) else t[3], None)
        return t

    def loop_folds(self, t):
        l = t[5]
        return [k for k, v in self.a.folds.items() if v[0] is l]

    def item(self, ti, ts, facts, sub):
        a = self.a
        loc = ti[-1] if isinstance(ti[-1], str) else None
        if ti[0] == 'loop':
            cnt, T, body, path, l = ti[1], ti[2], ti[3], ti[4], ti[5]
            _, var, lo, hi, direction, sbody, sfolds = ts
            lo, hi = sp.expand(lo.subs(sub)), sp.expand(hi.subs(sub))
            if T is None:
                raise Diff('shape', 'trip count of the loop at %s is not computable' % l.header.name)
            if not a.prove_eq(T, hi - lo, facts):
                dT = sp.expand(sp.sympify(T) - (hi - lo))
                if not dT.is_number:
                    # not a constant number of passes too many / too few: a loop of another shape (unrolled, split, ...)
                    raise Diff('shape', 'loop %s runs %s times, the reference runs over [%s, %s) = %s times' % (var, T, lo, hi, sp.expand(hi - lo)))
                raise Diff('point', 'loop %s runs %s times, the reference runs over [%s, %s) = %s times' % (var, T, lo, hi, sp.expand(hi - lo)),
                           self.a.fn.loc(l.header.term))
            sub2 = dict(sub)
            sub2[var] = lo + cnt if direction == 'asc' else hi - 1 - cnt
            f2 = facts + [cnt, T - 1 - cnt]
            # folds of this loop
            ifolds = self.loop_folds(ti)
            if len(ifolds) != len(sfolds):
                raise Diff('shape', 'loop %s carries %d data-dependent values, the reference %d' % (var, len(ifolds), len(sfolds)))
            if ifolds:
                ok = False
                last = None
                for perm in itertools.permutations(list(sfolds)):
                    bind0 = dict(self.bind)
                    for k, F in zip(ifolds, perm):
                        self.bind[k] = F
                    try:
                        for k, F in zip(ifolds, perm):
                            _, init, nxt, P = a.folds[k]
                            i_init = self.N(a.resolve(init, l.parent))
                            i_next = self.N(a.resolve(nxt, l))
                            s_init, s_next = sfolds[F]
                            s_init = self.N(s_init.subs(sub) if isinstance(s_init, sp.Basic) else sp.sympify(s_init))
                            s_next = self.N(s_next.subs(sub2))
                            if not same(a, i_init, s_init, f2):
                                raise Diff('point', 'carried value %s starts at %s, the reference at %s' % (F, i_init, s_init), a.fn.loc(l.header.term))
                            if not same(a, i_next, s_next, f2):
                                # where the reference leaves the choice among equal candidates free (pivot search), <= selects as well as <
                                alt = i_next.replace(lambda e_: getattr(e_, 'func', None) == sel and str(e_.args[0]) == 'le',
                                                     lambda e_: sel(sp.Symbol('lt'), *e_.args[1:])) if self.tie_free and isinstance(i_next, sp.Basic) else None
                                if alt is None or not same(a, alt, s_next, f2):
                                    raise Diff('point', 'carried value %s is updated to %s, the reference to %s' % (F, i_next, s_next), a.fn.loc(l.header.term))
                        ok = True
                        break
                    except Diff as d:
                        last = d
                        self.bind = bind0
                if not ok:
                    raise last
                self.nstmt += len(ifolds)
                # behind the loop: a carried value that is only ever kept or replaced by something >= its start is >= its start
                for k in ifolds:
                    try:
                        _, init, nxt, P = a.folds[k]
                        i_init = a.resolve(init, l.parent)
                        i_next = a.resolve(nxt, l)
                        arms = [i_next]
                        for _r in range(4):
                            arms = [y for x in arms for y in ((x.args[3], x.args[4]) if getattr(x, 'func', None) == sel else (x,))]
                        if all(x == P or x == k or a.prove_ge0(sp.expand(x - i_init), f2) for x in arms) and not any(getattr(x, 'func', None) == sel for x in arms):
                            facts.append(self.N(k) - self.N(i_init))
                    except Exception:
                        pass
            self.seq(body, sbody, f2, sub2)
            return
        if ti[0] == 'store':
            _, base, idx, val = ti[:4]
            _, sbase, sidx, sval = ts[:4]
            sidx = sp.expand(sidx.subs(sub))
            sval = self.N(sval.subs(sub) if isinstance(sval, sp.Basic) else sp.sympify(sval))
            ival = self.N(val)
            iidx = sp.expand(self.N(idx))
            if str(base) != str(sbase) or not a.prove_eq(iidx, sidx, facts):
                raise Diff('point', 'assignment to %s[%s], the reference assigns %s[%s]' % (base, iidx, sbase, sidx), loc)
            if not same(a, ival, sval, facts):
                raise Diff('point', '%s[%s] = %s, the reference has %s' % (base, iidx, ival, sval), loc)
            self.nstmt += 1
            return
        if ti[0] == 'call':
            _, name, args, _ = ti
            _, sname, sargs, _ = ts
            if name != sname:
                raise Diff('point', 'call to %s, the reference calls %s' % (name, sname), loc)
            if len(args) != len(sargs):
                raise Diff('point', 'call to %s with %d arguments' % (name, len(args)), loc)
            for k, (x, y) in enumerate(zip(args, sargs)):
                y = sp.sympify(y).subs(sub)
                if not same(a, self.N(x), self.N(y), facts):
                    raise Diff('point', 'argument %d of %s is %s, the reference passes %s' % (k + 1, name, self.N(x), y), loc)
            self.nstmt += 1
            return
        if ti[0] == 'exitif':
            _, c, body, _ = ti
            _, sc, sbody, _ = ts
            c = c.subs(self.N)
            thr = getattr(sc, 'threshold', False)
            sc = sc.subs(lambda e: self.N(sp.sympify(e).subs(sub)))
            sc.threshold = thr
            if not same_cmp(a, c, sc, facts):
                raise Diff('point', 'early exit when %r, the reference exits when %r%s' % (c, sc, ' (or any threshold rejecting a zero pivot)' if thr else ''), loc)
            self.seq(body, sbody, facts, sub)
            self.nstmt += 1
            return
        if ti[0] == 'if':
            _, c, then, else_ = ti[:4]
            _, sc, sthen, selse = ts[:4]
            c = c.subs(self.N)
            sc = sc.subs(lambda e: self.N(sp.sympify(e).subs(sub)))
            if same_cmp(a, c, sc, facts):
                self.seq(then, sthen, facts, sub)
                self.seq(else_, selse, facts, sub)
            elif same_cmp(a, c.neg(), sc, facts):
                self.seq(else_, sthen, facts, sub)
                self.seq(then, selse, facts, sub)
            else:
                raise Diff('point', 'branch on %r, the reference branches on %r' % (c, sc), loc)
            self.nstmt += 1
            return
        if ti[0] == 'ret':
            v = self.N(ti[1])
            sv = self.N(sp.sympify(ts[1]).subs(sub))
            if not same(a, v, sv, facts):
                raise Diff('point', 'returns %s, the reference returns %s' % (v, sv), loc)
            self.nstmt += 1
            return
        raise Diff('shape', 'item %s' % ti[0])


def compare(a, impl, spec, facts=(), tie_free=False):
    """-> number of matched statements; raises Diff"""
    return Matcher(a, impl, spec, facts, tie_free=tie_free).run()
