"""typestate rule "no use of a block pointer obtained before a reallocation after that reallocation succeeded" (C04 B7, C06 N3).

Reallocation points: calls of the container's own capacity functions (a_*_setm, a_*_setm_) and direct a_alloc(ctx->ptr_, n != 0)
calls.  A value loaded from ctx->ptr_ (or derived from such a load by address arithmetic) at a program point that cannot come
after the reallocation point is STALE behind every edge on which the reallocation succeeded; dereferencing it, passing it on,
storing it or returning it there is reported.  Uses that are only reachable through an edge establishing failure (the block did
not move) are fine - e.g. restoring a terminator on the failure path."""
import path
from effects import callee_name


def field_index(module, sname, fname):
    import dwarf
    st = dwarf.MD(module).structs().get(sname)
    if not st:
        return None
    for i, m in enumerate(st['members']):
        if m['name'] == fname:
            return i
    return None


def ctx_base(f, v, ctxn, depth=0):
    if v.k != 'reg' or depth > 6:
        return False
    if v.v == ctxn:
        return True
    d = f.defs.get(v.v)
    return bool(d is not None and d.op == 'bitcast' and ctx_base(f, d.ops[0], ctxn, depth + 1))


def ptr_loads(f, ctxn, pidx):
    out = []
    for i in f.instrs():
        if i.op == 'load' and i.ops[0].k == 'reg':
            g = f.defs.get(i.ops[0].v)
            if g is not None and g.op == 'gep' and len(g.ops) == 3 and g.ops[2].k == 'int' and g.ops[2].v == pidx and ctx_base(f, g.ops[0], ctxn):
                out.append(i)
    return out


def check(rep, rule, f, pidx, realloc_names):
    ctxn = f.params[0][1] if f.params else None
    if ctxn is None:
        return 0
    loads = ptr_loads(f, ctxn, pidx)
    if not loads:
        return 0
    points = []
    for i in f.instrs():
        if i.op != 'call':
            continue
        cn = callee_name(i)
        if cn in realloc_names and i.ops and ctx_base(f, i.ops[0], ctxn):
            points.append((i, cn, ('not', ('atom', 'zero', i.res)) if i.res else None, ('atom', 'zero', i.res) if i.res else None))
        elif cn is None:
            c = i.x.get('callee')
            d = f.defs.get(c.v) if c is not None and c.k == 'reg' else None
            if d is not None and d.op == 'load' and d.ops[0].k == 'global' and d.ops[0].v == 'a_alloc' and len(i.ops) == 2:
                a0 = path.strip_casts(f, i.ops[0])
                if a0.k == 'reg' and any(a0.v == l.res for l in loads) and not (i.ops[1].k == 'int' and i.ops[1].v == 0):
                    points.append((i, 'a_alloc', ('atom', 'null', i.res), ('not', ('atom', 'null', i.res))))
    nob = 0
    for (pt, what, succ_q, fail_q) in points:
        after = path.reach_from(f, pt.block.succs)

        def before(ins):
            if ins.block is pt.block:
                return ins.idx < pt.idx and pt.block not in after
            return ins.block not in after
        stale = set(l.res for l in loads if before(l))
        if not stale:
            continue
        fail_edges = path.edges_entailing(f, fail_q) if fail_q else []
        # closure over address arithmetic
        changed = True
        while changed:
            changed = False
            for i in f.instrs():
                if i.res is None or i.res in stale:
                    continue
                if i.op in ('gep', 'bitcast', 'ptrtoint', 'inttoptr', 'select') and any(o.k == 'reg' and o.v in stale for o in i.ops):
                    stale.add(i.res)
                    changed = True
                elif i.op == 'phi':
                    for o, lb in zip(i.ops, i.x['labels']):
                        if o.k == 'reg' and o.v in stale and live_after(f, pt, f.bmap[lb], fail_edges):
                            stale.add(i.res)
                            changed = True
                            break
        nob += 1
        probs = []
        for i in f.instrs():
            if i is pt:
                continue
            use = None
            if i.op == 'load' and i.ops[0].k == 'reg' and i.ops[0].v in stale:
                use = 'is read through'
            elif i.op == 'store' and i.ops[1].k == 'reg' and i.ops[1].v in stale:
                use = 'is written through'
            elif i.op == 'store' and i.ops[0].k == 'reg' and i.ops[0].v in stale:
                use = 'is stored'
            elif i.op == 'call' and any(o.k == 'reg' and o.v in stale for o in i.ops) and not (callee_name(i) or '').startswith('llvm.dbg'):
                use = 'is passed to %s' % (callee_name(i) or 'a callback')
            elif i.op == 'ret' and i.ops and i.ops[0].k == 'reg' and i.ops[0].v in stale:
                use = 'is returned'
            if use is None:
                continue
            if i.block is pt.block and i.idx > pt.idx and not fail_edges:
                probs.append((i, use))
            elif i.block is not pt.block and live_after(f, pt, i.block, fail_edges):
                probs.append((i, use))
        if probs:
            i, use = probs[0]
            rep.bad(rule, '%s@%s' % (f.name, f.line(pt)), 'a pointer into the block read from ptr_ before %s at %s %s at %s although the block may have moved '
                    '(the use is reachable without passing an edge on which the reallocation failed)' % (what, f.loc(pt), use, f.loc(i)), loc=f.loc(i),
                    key='%s: stale block pointer after %s' % (f.name, what))
        else:
            rep.ok(rule, '%s@%s' % (f.name, f.line(pt)), 'no block pointer read before %s is used behind its success' % what, loc=f.loc(pt))
    return nob


def live_after(f, pt, blk, fail_edges):
    """blk reachable from the reallocation point without crossing a failure edge"""
    es = set((s.name, d.name) for s, d in fail_edges)
    seen = set()
    st = [pt.block]
    first = True
    while st:
        b = st.pop()
        if b in seen:
            continue
        seen.add(b)
        for s in b.succs:
            if (b.name, s.name) in es:
                continue
            if s is blk:
                return True
            st.append(s)
    return False
