"""LIN - wrap-aware linear bounds analysis for the contiguous containers (DESIGN 3 LIN, appendix B).

Values are exact integer terms (ALG); every 64-bit add/sub of non-constant operands gets a wrap symbol k in {-1,0,1}
(value = mathematical result + 2^64 k, 0 <= value < 2^64), multiplications stay mathematical (an out-of-range product is an
out-of-range offset either way).  Obligations (memory effects inside the owned block, representation invariant at exits,
returned element pointers, non-zero divisors) are decided per path and per wrap assignment by Fourier-Motzkin entailment
after dividing byte quantities by the element size; a failed entailment becomes a VIOLATION only with an integer model."""
import itertools
import sympy as sp
import symx, alg, fm, llir
from symx import Ptr, Unsupported, TOP, NULL

TWO64 = 2 ** 64
MAXP = 2 ** 63 - 1      # PTRDIFF_MAX


class Effect:
    def __init__(self, kind, name, base, off, size, ins=None, note=''):
        self.kind, self.name, self.base, self.off, self.size, self.ins, self.note = kind, name, base, off, size, ins, note

    def __repr__(self):
        return '%s %s[%s +%s]' % (self.name, self.base, self.off, self.size)


class LinDom(alg.Alg):
    def __init__(self, names, summaries=None):
        alg.Alg.__init__(self, names)
        self.wraps = []       # (k symbol, value expr)
        self.summaries = summaries or {}
        self.nfresh = 0
        self.maybe_null = set()
        self.storage_bases = set()

    def fresh(self, tag, **kw):
        self.nfresh += 1
        return self.sym('%s%d' % (tag, self.nfresh), integer=True, **kw)

    def binop(self, op, a, b, ty):
        if ty.is_int and ty.a == 64 and op in ('add', 'sub') and a is not TOP and b is not TOP \
                and not isinstance(a, (alg.Cond, alg.BoolOp, bool)) and not isinstance(b, (alg.Cond, alg.BoolOp, bool)):
            ca, cb = self.concrete(a), self.concrete(b)
            if ca is None or cb is None:
                r0 = sp.sympify(a) + sp.sympify(b) if op == 'add' else sp.sympify(a) - sp.sympify(b)
                k = self.fresh('k')
                v = r0 + TWO64 * k
                self.wraps.append((k, v))
                return v
        if ty.is_int and op == 'and' and self.concrete(b) is not None and self.concrete(a) is None:
            # x & ~7 (size rounding): result r with r <= x and x - 7 <= r
            m = self.concrete(b) & (TWO64 - 1)
            low = (~m) & (TWO64 - 1)
            if low & (low + 1) == 0 and low < 4096:
                r = self.fresh('r', nonnegative=True)
                self.facts.append(fm.le(r, a))
                self.facts.append(fm.le(sp.sympify(a) - low, r))
                return r
        if ty.is_int and op == 'lshr' and self.concrete(b) is not None and self.concrete(a) is None:
            # q = x >> s: 2^s q <= x < 2^s (q+1)
            s = self.concrete(b)
            q = self.fresh('q', nonnegative=True)
            self.facts.append(fm.le((2 ** s) * q, a))
            self.facts.append(fm.lt(a, (2 ** s) * (q + 1)))
            return q
        return alg.Alg.binop(self, op, a, b, ty)

    facts = None
    cap_loc = None   # (base, offset) of the capacity field, read at effect time

    def strip_wrap(self, e):
        """pointer arithmetic is modulo 2^64: multiples of 2^64 in an index do not move the address"""
        e = sp.expand(sp.sympify(e))
        ks = [k for k, v in self.wraps if k in e.free_symbols]
        return e.subs({k: 0 for k in ks}) if ks else e

    def off_add(self, off, idx, scale):
        ci = self.concrete(idx)
        if ci is not None and isinstance(off, int):
            return off + ci * scale
        return sp.sympify(off) + self.strip_wrap(idx) * scale

    def off_sub(self, a, b):
        return sp.sympify(a) - sp.sympify(b)

    track_bases = ()
    _in_access = False

    def on_access(self, kind, p, ty, st, interp):
        if p.base in self.track_bases and not self._in_access:
            self._in_access = True
            try:
                e = Effect(kind, kind, p.base, p.off, symx.sizeof(ty, {}) if ty.k in ('int', 'float', 'double', 'ptr') else 1, None)
                e.cap = self.cap_now(interp, st)
                e.value = getattr(interp, 'cur_store_value', None) if kind == 'store' else None
                st.calls.append(e)
            finally:
                self._in_access = False

    def cap_now(self, interp, st):
        if self.cap_loc is None:
            return None
        return interp.load(Ptr(self.cap_loc[0], self.cap_loc[1]), llir.I(64), st)

    def nonnull(self, base):
        return base not in self.maybe_null

    def null_test(self, pred, p):
        return alg.Cond('icmp', pred, self.sym('&' + p.base, integer=True, nonnegative=True), 0)

    def entry(self, base, off, ty):
        if ty.is_ptr:
            nm = self.names.get((base, off))
            b = '*' + (nm or '%s[%s]' % (base, self.off_key(off)))
            self.maybe_null.add(b)
            return Ptr(b, 0)
        nm = self.names.get((base, off)) or '%s[%s]' % (base, self.off_key(off))
        return self.sym(nm, integer=True, nonnegative=True)

    # effects
    def call(self, name, args, ins, interp, st, fn):
        eff = None
        if name in ('a_copy', 'memcpy', 'a_move', 'memmove') or name.startswith('llvm.memcpy') or name.startswith('llvm.memmove'):
            eff = [('write', 0, 2), ('read', 1, 2)]
        elif name == 'a_swap':
            eff = [('write', 0, 2), ('write', 1, 2)]
        elif name in ('a_fill',):
            eff = [('write', 0, 1)]
        elif name in ('a_zero',):
            eff = [('write', 0, 1)]
        elif name in ('memset',) or name.startswith('llvm.memset'):
            eff = [('write', 0, 2)]
        elif name in ('memcmp',):
            eff = [('read', 0, 2), ('read', 1, 2)]
        elif name in ('memchr',):
            eff = [('read', 0, 2)]
        if name == 'qsort':
            e = Effect('write', name, args[0].base, args[0].off, sp.sympify(args[1]) * sp.sympify(args[2]), ins) if isinstance(args[0], Ptr) else None
            if e is not None and args[0].base != 'null':
                e.cap = self.cap_now(interp, st)
                st.calls.append(e)
            return None
        if name == 'bsearch':
            if isinstance(args[1], Ptr) and args[1].base != 'null':
                e = Effect('read', name, args[1].base, args[1].off, sp.sympify(args[2]) * sp.sympify(args[3]), ins)
                e.cap = self.cap_now(interp, st)
                st.calls.append(e)
            return TOP
        if eff is not None:
            for kind, pi, si in eff:
                p = args[pi]
                if isinstance(p, Ptr) and p.base != 'null':
                    e = Effect(kind, name, p.base, p.off, args[si], ins)
                    e.cap = self.cap_now(interp, st)
                    st.calls.append(e)
            if name in ('memcmp',):
                return self.fresh('cmp')
            if name == 'memchr':
                self.nfresh += 1
                b = 'memchr%d' % self.nfresh
                self.maybe_null.add(b)
                return Ptr(b, 0)
            return args[0]
        if name in self.summaries:
            return NotImplemented
        return alg.Alg.call(self, name, args, ins, interp, st, fn)

    def indirect_call(self, callee, args, ins, interp, st):
        if isinstance(callee, Ptr) and 'a_alloc' in callee.base:
            # the allocator: (p, 0) frees; otherwise a fresh (possibly null) block
            if len(args) == 2 and self.concrete(args[1]) == 0:
                return NULL
            if isinstance(args[0], Ptr) and args[0].base == 'ctx' and args[0].off == 0:
                # reallocation of the object itself: on success the same logical object (the failure path returns NULL and
                # changes nothing - rule A2 of C07)
                return Ptr('ctx', 0)
            self.nfresh += 1
            b = 'blk%d' % self.nfresh
            self.maybe_null.add(b)
            return Ptr(b, 0)
        for a in args:
            if isinstance(a, Ptr) and a.base != 'null':
                e = Effect('callback', 'callback', a.base, a.off, None, ins)
                e.cap = self.cap_now(interp, st)
                st.calls.append(e)
        if ins.ty is not None and ins.ty.is_int:
            return self.fresh('cb')
        if ins.ty is not None and ins.ty.is_ptr:
            return Ptr('*cbresult', 0)
        return None

    def call_alternatives(self, name, args, ins, interp, st, fn):
        s = self.summaries.get(name)
        if s is None:
            return NotImplemented
        return s(self, args, ins, interp, st)


# ---------------------------------------------------------------- deciding obligations
class Case:
    """one path under one assignment of the wrap symbols"""

    def __init__(self, cons, kenv):
        self.cons, self.kenv = cons, kenv


def cond_constraints(c):
    """path condition -> list of alternative constraint lists (disjunction of conjunctions); None if not linear"""
    if isinstance(c, bool):
        return [[]] if c else []
    if isinstance(c, alg.BoolOp):
        parts = [cond_constraints(a) for a in c.args]
        if any(p is None for p in parts):
            return None
        if c.op == 'and':
            out = [[]]
            for p in parts:
                out = [x + y for x in out for y in p]
            return out
        out = []
        for p in parts:
            out += p
        return out
    if not isinstance(c, alg.Cond):
        return None
    a, b = sp.sympify(c.a), sp.sympify(c.b)
    r = c.rel()
    try:
        if r == '<':
            return [[fm.lt(a, b)]]
        if r == '<=':
            return [[fm.le(a, b)]]
        if r == '>':
            return [[fm.lt(b, a)]]
        if r == '>=':
            return [[fm.le(b, a)]]
        if r == '==':
            return [fm.eq(a, b)]
        if r == '!=':
            return [[fm.lt(a, b)], [fm.lt(b, a)]]
    except fm.NonLinear:
        return None
    return None


def divide(e, siz):
    """byte quantity -> element units when it is a multiple of the element size symbol"""
    e = sp.expand(sp.sympify(e))
    if siz is None:
        return e
    q = sp.cancel(e / siz)
    if q.has(siz) or not q.is_polynomial():
        return None
    return sp.expand(q)


def cases_of(dom, leaf, base_facts, extra=()):
    """-> list of Case (feasible combinations of path-condition disjuncts and wrap assignments), or raises Unsupported"""
    alts = [[]]
    for c in leaf.pc:
        cc = cond_constraints(c)
        if cc is None:
            # a non-linear condition is dropped (sound: fewer assumptions) but recorded
            continue
        alts = [x + y for x in alts for y in cc]
        if len(alts) > 64:
            raise Unsupported('too many disjuncts')
    syms = set()
    for t in used_terms(leaf):
        syms |= t.free_symbols
    facts = list(dom.facts or [])
    wrapv = {k: v for k, v in dom.wraps}
    rel = []
    changed = True
    used = set()
    while changed:
        changed = False
        for i, c in enumerate(facts):
            if i in used:
                continue
            cs = set(k for k in c if k != 1)
            if cs & syms:
                used.add(i)
                rel.append(c)
                if not cs <= syms:
                    syms |= cs
                    changed = True
        for k, v in wrapv.items():
            if k in syms and not v.free_symbols <= syms:
                syms |= v.free_symbols
                changed = True
    ks = sorted(set(k for k in wrapv if k in syms), key=str)
    if len(ks) > 7:
        raise Unsupported('%d wrap symbols on one path' % len(ks))
    out = []
    wrapc = {k: v for k, v in dom.wraps}
    for assign in itertools.product((0, 1, -1), repeat=len(ks)):
        kenv = dict(zip(ks, assign))
        rng = []
        okc = True
        for k in ks:
            v = sp.expand(wrapc[k].subs(kenv))
            try:
                rng.append(fm.le(0, v))
                rng.append(fm.le(v, TWO64 - 1))
            except fm.NonLinear:
                okc = False
        if not okc:
            raise Unsupported('non-linear wrapped value')
        for a in alts:
            cons = list(base_facts) + list(extra) + rng
            bad = False
            for c in a:
                cons.append(subst_con(c, kenv))
            for c in rel:
                cons.append(subst_con(c, kenv))
            # symbols that are non-negative by construction (sizes, counts, fresh quotients ...)
            seen = set()
            for c in list(cons):
                for sy in c:
                    if sy != 1 and sy not in seen:
                        seen.add(sy)
                        if getattr(sy, 'is_nonnegative', False):
                            cons.append(fm.le(0, sy))
            if fm.unsat(cons):
                continue
            out.append(Case(cons, kenv))
    return out


def subst_con(c, kenv):
    out = {}
    const = c.get(1, 0)
    for s, v in c.items():
        if s == 1:
            continue
        if s in kenv:
            const += v * kenv[s]
        else:
            out[s] = out.get(s, 0) + v
    out[1] = const
    return out


def used_terms(leaf):
    ts = []
    for c in leaf.pc:
        if isinstance(c, alg.Cond):
            ts += [c.a, c.b]
        elif isinstance(c, alg.BoolOp):
            for a in alg_atoms(c):
                ts += [a.a, a.b]
    for e in leaf.calls:
        if isinstance(e, Effect):
            ts += [e.off] + ([e.size] if e.size is not None else [])
    for (b, off), (v, t) in leaf.store.items():
        ts.append(off if not isinstance(off, str) else 0)
        if not isinstance(v, (Ptr, tuple, list)) and v is not TOP and v is not None and not isinstance(v, (alg.Cond, alg.BoolOp, bool)):
            ts.append(v)
        if isinstance(v, Ptr):
            ts.append(v.off)
    if isinstance(leaf.ret, Ptr):
        ts.append(leaf.ret.off)
    elif leaf.ret is not None and leaf.ret is not TOP and not isinstance(leaf.ret, (alg.Cond, alg.BoolOp, bool, tuple, list)):
        ts.append(leaf.ret)
    for (b, off, ty) in leaf.reads:
        ts.append(off)
    out = []
    for t in ts:
        try:
            out.append(sp.sympify(t))
        except Exception:
            pass
    return out


def alg_atoms(c):
    if isinstance(c, alg.BoolOp):
        out = []
        for a in c.args:
            out += alg_atoms(a)
        return out
    return [c] if isinstance(c, alg.Cond) else []


def abstract_facts(cons):
    out = []
    seen = set()
    for c in cons:
        for k in c:
            if k != 1 and str(k).startswith('u') and k in fm.ABSTRACT.values() and k not in seen:
                seen.add(k)
                out.append(fm.le(0, k))
    return out


def prove(case, goals):
    """all goal constraints entailed? -> (True, None) | (False, failing goal)"""
    for g in goals:
        g2 = subst_con(g, case.kenv)
        extra = abstract_facts(case.cons + [g2])
        have = set()
        for c in case.cons:
            have |= set(k for k in c if k != 1)
        for sy in g2:
            if sy != 1 and sy not in have and getattr(sy, 'is_nonnegative', False):
                extra.append(fm.le(0, sy))
        if extra:
            case.cons = case.cons + [e for e in extra if e not in case.cons]
        if not fm.entails(case.cons, g2):
            return False, g2
    return True, None


def witness(case, goal, syms):
    """integer model of case AND NOT goal (a concrete counterexample), or None"""
    cons = list(case.cons) + [fm.negate(goal)]
    live = set()
    for c in cons:
        live |= set(k for k in c if k != 1)
    return fm.model(cons, live)
