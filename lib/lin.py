"""LIN - wrap-aware linear bounds analysis for the contiguous containers (DESIGN 3 LIN, appendix B).

Values are exact integer terms (ALG); every 64-bit add/sub of non-constant operands gets a wrap symbol k in {-1,0,1}
(value = mathematical result + 2^64 k, 0 <= value < 2^64), multiplications stay mathematical (an out-of-range product is an
out-of-range offset either way).  Obligations (memory effects inside the owned block, representation invariant at exits,
returned element pointers, non-zero divisors) are decided per path and per wrap assignment by Fourier-Motzkin entailment
after dividing byte quantities by the element size; a failed entailment becomes a VIOLATION only with an integer model."""
import itertools
import sympy as sp
import symx, alg, fm, llir
from symx import Ptr, Unsupported, TOP, NULL

TWO64 = 2 ** 64
MAXP = 2 ** 63 - 1      # PTRDIFF_MAX


class Effect:
    def __init__(self, kind, name, base, off, size, ins=None, note=''):
        self.kind, self.name, self.base, self.off, self.size, self.ins, self.note = kind, name, base, off, size, ins, note

    def __repr__(self):
        return '%s %s[%s +%s]' % (self.name, self.base, self.off, self.size)


class LinDom(alg.Alg):
    def __init__(self, names, summaries=None):
        alg.Alg.__init__(self, names)
        self.wraps = []       # (k symbol, value expr)
        self.summaries = summaries or {}
        self.nfresh = 0
        self.maybe_null = set()
        self.storage_bases = set()

    def fresh(self, tag, **kw):
        self.nfresh += 1
        return self.sym('%s%d' % (tag, self.nfresh), integer=True, **kw)

    def binop(self, op, a, b, ty):
        if ty.is_int and ty.a == 64 and op in ('add', 'sub') and a is not TOP and b is not TOP \
                and not isinstance(a, (alg.Cond, alg.BoolOp, bool)) and not isinstance(b, (alg.Cond, alg.BoolOp, bool)):
            ca, cb = self.concrete(a), self.concrete(b)
            if ca is None or cb is None:
                r0 = sp.sympify(a) + sp.sympify(b) if op == 'add' else sp.sympify(a) - sp.sympify(b)
                k = self.fresh('k')
                v = r0 + TWO64 * k
                self.wraps.append((k, v))
                return v
        if ty.is_int and op == 'and' and self.concrete(b) is not None and self.concrete(a) is None:
            # x & ~7 (size rounding): result r with r <= x and x - 7 <= r
            m = self.concrete(b) & (TWO64 - 1)
            low = (~m) & (TWO64 - 1)
            if low & (low + 1) == 0 and low < 4096:
                r = self.fresh('r', nonnegative=True)
                self.facts.append(fm.le(r, a))
                self.facts.append(fm.le(sp.sympify(a) - low, r))
                return r
        if ty.is_int and op == 'lshr' and self.concrete(b) is not None and self.concrete(a) is None:
            # q = x >> s: 2^s q <= x < 2^s (q+1)
            s = self.concrete(b)
            q = self.fresh('q', nonnegative=True)
            self.facts.append(fm.le((2 ** s) * q, a))
            self.facts.append(fm.lt(a, (2 ** s) * (q + 1)))
            return q
        if ty.is_int and op == 'udiv' and self.concrete(b) is not None and self.concrete(a) is None and 0 < self.concrete(b) <= 4096:
            # q = x / c (unsigned, constant divisor): c q <= x < c (q+1)
            c = self.concrete(b)
            try:
                f1, f2 = fm.le(c * sp.Symbol('q__'), a), fm.lt(a, c * (sp.Symbol('q__') + 1))
            except fm.NonLinear:
                return alg.Alg.binop(self, op, a, b, ty)
            q = self.fresh('q', nonnegative=True)
            self.facts.append(fm.le(c * q, a))
            self.facts.append(fm.lt(a, c * (q + 1)))
            return q
        return alg.Alg.binop(self, op, a, b, ty)

    facts = None
    cap_loc = None   # (base, offset) of the capacity field, read at effect time

    def strip_wrap(self, e):
        """pointer arithmetic is modulo 2^64: multiples of 2^64 in an index do not move the address"""
        e = sp.expand(sp.sympify(e))
        ks = [k for k, v in self.wraps if k in e.free_symbols]
        return e.subs({k: 0 for k in ks}) if ks else e

    def off_add(self, off, idx, scale):
        ci = self.concrete(idx)
        if ci is not None and isinstance(off, int):
            return off + ci * scale
        return sp.sympify(off) + self.strip_wrap(idx) * scale

    def off_sub(self, a, b):
        return sp.sympify(a) - sp.sympify(b)

    track_bases = ()
    _in_access = False

    def on_access(self, kind, p, ty, st, interp):
        if p.base in self.track_bases and not self._in_access:
            self._in_access = True
            try:
                e = Effect(kind, kind, p.base, p.off, symx.sizeof(ty, {}) if ty.k in ('int', 'float', 'double', 'ptr') else 1, None)
                e.cap = self.cap_now(interp, st)
                e.value = getattr(interp, 'cur_store_value', None) if kind == 'store' else None
                st.calls.append(e)
            finally:
                self._in_access = False

    def cap_now(self, interp, st):
        if self.cap_loc is None:
            return None
        return interp.load(Ptr(self.cap_loc[0], self.cap_loc[1]), llir.I(64), st)

    def nonnull(self, base):
        return base not in self.maybe_null

    def null_test(self, pred, p):
        return alg.Cond('icmp', pred, self.sym('&' + p.base, integer=True, nonnegative=True), 0)

    def entry(self, base, off, ty):
        if ty.is_ptr:
            nm = self.names.get((base, off))
            b = '*' + (nm or '%s[%s]' % (base, self.off_key(off)))
            self.maybe_null.add(b)
            return Ptr(b, 0)
        nm = self.names.get((base, off)) or '%s[%s]' % (base, self.off_key(off))
        v = self.sym(nm, integer=True, nonnegative=True)
        if not hasattr(self, 'loaded'):
            self.loaded = {}
        self.loaded[v] = (base, off)      # where an entry value was read from (rules that tie a tested byte to its position)
        return v

    # effects
    def call(self, name, args, ins, interp, st, fn):
        eff = None
        if name in ('a_copy', 'memcpy', 'a_move', 'memmove') or name.startswith('llvm.memcpy') or name.startswith('llvm.memmove'):
            eff = [('write', 0, 2), ('read', 1, 2)]
        elif name == 'a_swap':
            eff = [('write', 0, 2), ('write', 1, 2)]
        elif name in ('a_fill',):
            eff = [('write', 0, 1)]
        elif name in ('a_zero',):
            eff = [('write', 0, 1)]
        elif name in ('memset',) or name.startswith('llvm.memset'):
            eff = [('write', 0, 2)]
        elif name in ('memcmp',):
            eff = [('read', 0, 2), ('read', 1, 2)]
        elif name in ('memchr',):
            eff = [('read', 0, 2)]
        if name == 'qsort':
            e = Effect('write', name, args[0].base, args[0].off, sp.sympify(args[1]) * sp.sympify(args[2]), ins) if isinstance(args[0], Ptr) else None
            if e is not None and args[0].base != 'null':
                e.cap = self.cap_now(interp, st)
                st.calls.append(e)
            return None
        if name == 'bsearch':
            if isinstance(args[1], Ptr) and args[1].base != 'null':
                e = Effect('read', name, args[1].base, args[1].off, sp.sympify(args[2]) * sp.sympify(args[3]), ins)
                e.cap = self.cap_now(interp, st)
                st.calls.append(e)
            return TOP
        if eff is not None:
            for kind, pi, si in eff:
                p = args[pi]
                if isinstance(p, Ptr) and p.base != 'null':
                    e = Effect(kind, name, p.base, p.off, args[si], ins)
                    e.cap = self.cap_now(interp, st)
                    # a block that is filled with zero bytes (terminator rules read this)
                    e.zero = name == 'a_zero' or (name == 'a_fill' and len(args) > 2 and self.concrete(args[2]) == 0) or \
                        ((name == 'memset' or name.startswith('llvm.memset')) and len(args) > 1 and self.concrete(args[1]) == 0)
                    st.calls.append(e)
            if name in ('memcmp',):
                return self.fresh('cmp')
            if name == 'memchr':
                self.nfresh += 1
                b = 'memchr%d' % self.nfresh
                self.maybe_null.add(b)
                if not hasattr(self, 'memchr_args'):
                    self.memchr_args = {}
                self.memchr_args[b] = tuple(args[:3])
                return Ptr(b, 0)
            return args[0]
        if name in self.summaries:
            return NotImplemented
        return alg.Alg.call(self, name, args, ins, interp, st, fn)

    def indirect_call(self, callee, args, ins, interp, st):
        if isinstance(callee, Ptr) and 'a_alloc' in callee.base:
            # the allocator: (p, 0) frees; otherwise a fresh (possibly null) block
            if len(args) == 2 and self.concrete(args[1]) == 0:
                return NULL
            if isinstance(args[0], Ptr) and args[0].base == 'ctx' and args[0].off == 0:
                # reallocation of the object itself: on success the same logical object (the failure path returns NULL and
                # changes nothing - rule A2 of C07)
                return Ptr('ctx', 0)
            self.nfresh += 1
            b = 'blk%d' % self.nfresh
            self.maybe_null.add(b)
            return Ptr(b, 0)
        for a in args:
            if isinstance(a, Ptr) and a.base != 'null':
                e = Effect('callback', 'callback', a.base, a.off, None, ins)
                e.cap = self.cap_now(interp, st)
                st.calls.append(e)
        if ins.ty is not None and ins.ty.is_int:
            return self.fresh('cb')
        if ins.ty is not None and ins.ty.is_ptr:
            return Ptr('*cbresult', 0)
        return None

    def call_alternatives(self, name, args, ins, interp, st, fn):
        s = self.summaries.get(name)
        if s is None:
            return NotImplemented
        return s(self, args, ins, interp, st)


# ---------------------------------------------------------------- deciding obligations
class Case:
    """one path under one assignment of the wrap symbols"""

    def __init__(self, cons, kenv):
        self.cons, self.kenv = cons, kenv


def cond_constraints(c):
    """path condition -> list of alternative constraint lists (disjunction of conjunctions); None if not linear"""
    if isinstance(c, bool):
        return [[]] if c else []
    if isinstance(c, alg.BoolOp):
        parts = [cond_constraints(a) for a in c.args]
        if any(p is None for p in parts):
            return None
        if c.op == 'and':
            out = [[]]
            for p in parts:
                out = [x + y for x in out for y in p]
            return out
        out = []
        for p in parts:
            out += p
        return out
    if not isinstance(c, alg.Cond):
        return None
    a, b = sp.sympify(c.a), sp.sympify(c.b)
    r = c.rel()
    try:
        fm.lin(a - b)
    except fm.NonLinear:
        # both sides multiples of the element size (>= 1): compare the quotients
        for g in list((a - b).free_symbols):
            if str(g) == 'siz_':
                qd = divide(a - b, g)
                if qd is not None:
                    a, b = qd, sp.Integer(0)
    try:
        if r == '<':
            return [[fm.lt(a, b)]]
        if r == '<=':
            return [[fm.le(a, b)]]
        if r == '>':
            return [[fm.lt(b, a)]]
        if r == '>=':
            return [[fm.le(b, a)]]
        if r == '==':
            return [fm.eq(a, b)]
        if r == '!=':
            return [[fm.lt(a, b)], [fm.lt(b, a)]]
    except fm.NonLinear:
        return None
    return None


def fn_args_syms(state):
    """symbols standing for function arguments and entry fields: everything in the environment of the state that is a plain symbol"""
    out = set()
    for v in state.env.values():
        if isinstance(v, sp.Symbol):
            out.add(v)
    return out


def divide(e, siz):
    """byte quantity -> element units when it is a multiple of the element size symbol"""
    e = sp.expand(sp.sympify(e))
    if siz is None:
        return e
    q = sp.cancel(e / siz)
    if q.has(siz) or not q.is_polynomial():
        return None
    return sp.expand(q)


def cases_of(dom, leaf, base_facts, extra=(), extra_terms=()):
    """-> list of Case (feasible combinations of path-condition disjuncts and wrap assignments), or raises Unsupported"""
    alts = [[]]
    for c in leaf.pc:
        cc = cond_constraints(c)
        if cc is None:
            # a non-linear condition is dropped (sound: fewer assumptions) but recorded
            continue
        alts = [x + y for x in alts for y in cc]
        if len(alts) > 64:
            raise Unsupported('too many disjuncts')
    syms = set()
    for t in used_terms(leaf):
        syms |= t.free_symbols
    for t in extra_terms:
        syms |= sp.sympify(t).free_symbols
    facts = list(dom.facts or [])
    wrapv = {k: v for k, v in dom.wraps}
    rel = []
    changed = True
    used = set()
    while changed:
        changed = False
        for i, c in enumerate(facts):
            if i in used:
                continue
            cs = set(k for k in c if k != 1)
            if cs & syms:
                used.add(i)
                rel.append(c)
                if not cs <= syms:
                    syms |= cs
                    changed = True
        for k, v in wrapv.items():
            if k in syms and not v.free_symbols <= syms:
                syms |= v.free_symbols
                changed = True
    ks = sorted(set(k for k in wrapv if k in syms), key=str)
    if len(ks) > 7:
        raise Unsupported('%d wrap symbols on one path' % len(ks))
    out = []
    wrapc = {k: v for k, v in dom.wraps}
    for assign in itertools.product((0, 1, -1), repeat=len(ks)):
        kenv = dict(zip(ks, assign))
        rng = []
        okc = True
        for k in ks:
            v = sp.expand(wrapc[k].subs(kenv))
            try:
                rng.append(fm.le(0, v))
                rng.append(fm.le(v, TWO64 - 1))
            except fm.NonLinear:
                okc = False
        if not okc:
            raise Unsupported('non-linear wrapped value')
        for a in alts:
            cons = list(base_facts) + list(extra) + rng
            bad = False
            for c in a:
                cons.append(subst_con(c, kenv))
            for c in rel:
                cons.append(subst_con(c, kenv))
            # symbols that are non-negative by construction (sizes, counts, fresh quotients ...)
            seen = set()
            for c in list(cons):
                for sy in c:
                    if sy != 1 and sy not in seen:
                        seen.add(sy)
                        if getattr(sy, 'is_nonnegative', False):
                            cons.append(fm.le(0, sy))
            if fm.unsat(cons):
                continue
            out.append(Case(cons, kenv))
    return out


def subst_con(c, kenv):
    out = {}
    const = c.get(1, 0)
    for s, v in c.items():
        if s == 1:
            continue
        if s in kenv:
            const += v * kenv[s]
        else:
            out[s] = out.get(s, 0) + v
    out[1] = const
    return out


def used_terms(leaf):
    ts = []
    for c in leaf.pc:
        if isinstance(c, alg.Cond):
            ts += [c.a, c.b]
        elif isinstance(c, alg.BoolOp):
            for a in alg_atoms(c):
                ts += [a.a, a.b]
    for e in leaf.calls:
        if isinstance(e, Effect):
            ts += [e.off] + ([e.size] if e.size is not None else []) + ([e.cap] if getattr(e, 'cap', None) is not None else [])
    for (b, off), (v, t) in leaf.store.items():
        ts.append(off if not isinstance(off, str) else 0)
        if not isinstance(v, (Ptr, tuple, list)) and v is not TOP and v is not None and not isinstance(v, (alg.Cond, alg.BoolOp, bool)):
            ts.append(v)
        if isinstance(v, Ptr):
            ts.append(v.off)
    if isinstance(leaf.ret, Ptr):
        ts.append(leaf.ret.off)
    elif leaf.ret is not None and leaf.ret is not TOP and not isinstance(leaf.ret, (alg.Cond, alg.BoolOp, bool, tuple, list)):
        ts.append(leaf.ret)
    for (b, off, ty) in leaf.reads:
        ts.append(off)
    out = []
    for t in ts:
        try:
            out.append(sp.sympify(t))
        except Exception:
            pass
    return out


def alg_atoms(c):
    if isinstance(c, alg.BoolOp):
        out = []
        for a in c.args:
            out += alg_atoms(a)
        return out
    return [c] if isinstance(c, alg.Cond) else []


def abstract_facts(cons):
    out = []
    seen = set()
    for c in cons:
        for k in c:
            if k != 1 and str(k).startswith('u') and k in fm.ABSTRACT.values() and k not in seen:
                seen.add(k)
                out.append(fm.le(0, k))
    return out


def prove(case, goals):
    """all goal constraints entailed? -> (True, None) | (False, failing goal)"""
    for g in goals:
        g2 = subst_con(g, case.kenv)
        extra = abstract_facts(case.cons + [g2])
        have = set()
        for c in case.cons:
            have |= set(k for k in c if k != 1)
        for sy in g2:
            if sy != 1 and sy not in have and getattr(sy, 'is_nonnegative', False):
                extra.append(fm.le(0, sy))
        if extra:
            case.cons = case.cons + [e for e in extra if e not in case.cons]
        if not fm.entails(case.cons, g2):
            return False, g2
    return True, None


def witness(case, goal, syms):
    """integer model of case AND NOT goal (a concrete counterexample), or None"""
    cons = list(case.cons) + [fm.negate(goal)]
    live = set()
    for c in cons:
        live |= set(k for k in c if k != 1)
    return fm.model(cons, live)


# ---------------------------------------------------------------- loop summaries (affine closed forms + Houdini bounds)
class LoopSummary:
    """hook for symx.Interp: a natural loop (no nesting) reached for the first time is replaced by
         * a closed form  v = init + step * t  (t a fresh iteration number >= 0) for every header phi and every container field written in
           the loop whose one-iteration step is loop-invariant on all back edges (discovered by one run with the values havocked),
         * a havocked value with the surviving candidate bounds  v >= init / v <= init  (Houdini) for the others,
       and ONE abstract iteration from that state: paths that return from the function (including the continuation behind the loop exit
       at iteration t) are ordinary leaves; paths that come back to the header are *iteration leaves* carrying the effects of the body and the
       inductiveness obligations of the closed forms (collected in interp.loop_leaves for the caller's obligation checker)."""

    def __init__(self, facts0, fields):
        self.facts0 = facts0
        self.fields = fields       # {(base, off)} container fields that may be written in loops
        self.notes = []

    def cells_written(self, it, fn, s, body):
        cells = []
        for b in body:
            for ins in b.instrs:
                if ins.op != 'store':
                    continue
                g = fn.defs.get(ins.ops[1].v) if ins.ops[1].k == 'reg' else None
                root = g.ops[0] if g is not None and g.op == 'gep' else None
                for _ in range(4):
                    # the container arrives as void * in buf.c: look through the cast to the parameter
                    rd = fn.defs.get(root.v) if root is not None and root.k == 'reg' else None
                    if rd is not None and rd.op == 'bitcast':
                        root = rd.ops[0]
                    else:
                        break
                if g is not None and g.op == 'gep' and root.k == 'reg' and any(pn == root.v for pt, pn in fn.params) and all(o.k == 'int' for o in g.ops[1:]):
                    try:
                        p = it.gep(it.val(root, s, fn), g.x['bt'], [(o.ty, it.val(o, s, fn)) for o in g.ops[1:]], fn.module.structs)
                    except Exception:
                        return None
                    key = (p.base, it.dom.off_key(p.off))
                    if key not in cells:
                        cells.append((key, ins.ops[0].ty))
        return cells

    def region(self, it, fn, hdr, s1, env, depth):
        it._active = getattr(it, '_active', [])
        it._active.append(hdr)
        ro = []
        try:
            rets = it._run_fn(fn, [], s1, depth, start=hdr, prev0=None, stops={hdr}, env0=env, region_out=ro)
        finally:
            it._active.pop()
        return ro, rets

    def __call__(self, it, fn, s, hdr, prev, depth):
        if getattr(it, 'loop_leaves', None) is None:
            it.loop_leaves = []
        mark0 = len(it.loop_leaves)
        r = self._summarise(it, fn, s, hdr, prev, depth, mark0)
        if r is None:
            del it.loop_leaves[mark0:]       # a failed summary leaves nothing behind
        return r

    def _summarise(self, it, fn, s, hdr, prev, depth, mark0):
        # every region run below but the last is exploratory (havocked / candidate values): iteration leaves that loops BEHIND this one
        # (reached through its exit inside the same function) produce during such a run are dropped before the next run starts
        d = it.dom
        loops = [l for l in fn.loops() if l[0] is hdr]
        if not loops:
            return None
        header, body, latches = loops[0]
        if any(h2 is not hdr and h2 in body for h2, _, _ in fn.loops()):
            return None
        phis = [i for i in hdr.instrs if i.op == 'phi']
        try:
            init = {p.res: it.val(p.ops[p.x['labels'].index(prev.name)], s, fn) for p in phis}
        except Exception:
            return None
        cells = self.cells_written(it, fn, s, body)
        if cells is None:
            return None
        cinit = {}
        for key, ty in cells:
            if key in s.store:
                cinit[key] = s.store[key][0]
            else:
                cinit[key] = it.load(Ptr(key[0], key[1]), ty, s)
        for v in list(init.values()) + list(cinit.values()):
            if v is TOP or isinstance(v, (alg.Cond, alg.BoolOp, tuple, list)):
                return None

        prev_pc = []     # (t == 0) or (the conditions under which the previous iteration came back to the header), see below

        def make(values_phi, values_cell):
            s1 = s.clone()
            env = dict(s.env)
            for p in phis:
                env[p.res] = values_phi[p.res]
            for key, ty in cells:
                s1.store[key] = (values_cell[key], ty)
            if prev_pc:
                s1.pc = list(s1.pc) + list(prev_pc)
                s1.pc_raw = list(s1.pc_raw) + list(prev_pc)
            return s1, env
        # ---- phase 1: havoc, discover invariant steps
        hp, hc = {}, {}
        for p in phis:
            v = init[p.res]
            h = d.fresh('h')
            hp[p.res] = Ptr(v.base, h) if isinstance(v, Ptr) else h
        for key, ty in cells:
            hc[key] = d.fresh('h', nonnegative=True)
        s1, env = make(hp, hc)
        try:
            del it.loop_leaves[mark0:]
            ro, rets = self.region(it, fn, hdr, s1, env, depth)
        except Unsupported:
            return None
        hs = set()
        for v in list(hp.values()) + list(hc.values()):
            hs |= (sp.sympify(v.off).free_symbols if isinstance(v, Ptr) else sp.sympify(v).free_symbols)

        def delta(new, old):
            if isinstance(old, Ptr):
                if not isinstance(new, Ptr) or new.base != old.base:
                    return None
                return sp.expand(d.strip_wrap(sp.sympify(new.off) - sp.sympify(old.off)))
            if isinstance(new, Ptr) or new is TOP or new is None:
                return None
            try:
                return sp.expand(d.strip_wrap(sp.sympify(new) - sp.sympify(old)))
            except Exception:
                return None
        steps_p, steps_c = {}, {}
        for p in phis:
            st_ = set()
            for sb, blk, pb in ro:
                nv = it.val(p.ops[p.x['labels'].index(pb.name)], sb, fn)
                dl = delta(nv, hp[p.res])
                st_.add(dl)
            if len(st_) == 1 and None not in st_ and not (list(st_)[0].free_symbols & hs) and ro:
                steps_p[p.res] = list(st_)[0]
        for key, ty in cells:
            st_ = set()
            for sb, blk, pb in ro:
                nv = sb.store[key][0] if key in sb.store else None
                st_.add(delta(nv, hc[key]))
            if len(st_) == 1 and None not in st_ and not (list(st_)[0].free_symbols & hs) and ro:
                steps_c[key] = list(st_)[0]
        # a value that keeps a constant distance to an affine one is affine itself (ptr = cur - siz in the bubble loops)
        changed = True
        while changed:
            changed = False
            for q in phis:
                if q.res in steps_p:
                    continue
                for p in phis:
                    if p.res not in steps_p or q.ty != p.ty:
                        continue
                    vq, vp_ = init[q.res], init[p.res]
                    if isinstance(vq, Ptr) != isinstance(vp_, Ptr) or (isinstance(vq, Ptr) and vq.base != vp_.base):
                        continue
                    c0 = sp.expand(d.strip_wrap((sp.sympify(vq.off) - sp.sympify(vp_.off)) if isinstance(vq, Ptr) else (sp.sympify(vq) - sp.sympify(vp_))))
                    hq = hp[q.res].off if isinstance(hp[q.res], Ptr) else hp[q.res]
                    hpp = hp[p.res].off if isinstance(hp[p.res], Ptr) else hp[p.res]
                    ok = bool(ro)
                    for sb, blk, pb in ro:
                        nq = it.val(q.ops[q.x['labels'].index(pb.name)], sb, fn)
                        if isinstance(nq, Ptr) != isinstance(vq, Ptr) or nq is TOP or nq is None or (isinstance(nq, Ptr) and nq.base != vq.base):
                            ok = False
                            break
                        e = sp.sympify(nq.off) if isinstance(nq, Ptr) else sp.sympify(nq)
                        e = sp.expand(d.strip_wrap(e).subs(hq, hpp + c0))
                        if sp.expand(e - (hpp + steps_p[p.res]) - c0) != 0:
                            ok = False
                            break
                    if ok:
                        steps_p[q.res] = steps_p[p.res]
                        changed = True
                        break
        # the same for a field that keeps a constant distance to an affine counter (num_ = i + 1 in the trim loops)
        for key, ty in cells:
            if key in steps_c:
                continue
            for p in phis:
                if p.res not in steps_p or isinstance(init[p.res], Ptr) or isinstance(cinit[key], Ptr):
                    continue
                try:
                    c0 = sp.expand(d.strip_wrap(sp.sympify(cinit[key]) - sp.sympify(init[p.res])))
                except Exception:
                    continue
                ok = bool(ro)
                for sb, blk, pb in ro:
                    nv = sb.store[key][0] if key in sb.store else None
                    if nv is None or isinstance(nv, Ptr) or nv is TOP:
                        ok = False
                        break
                    e = sp.expand(d.strip_wrap(sp.sympify(nv)).subs(hc[key], hp[p.res] + c0))
                    if sp.expand(e - (hp[p.res] + steps_p[p.res]) - c0) != 0:
                        ok = False
                        break
                if ok:
                    steps_c[key] = steps_p[p.res]
                    break
        # ---- phase 2: closed forms in the iteration number t, Houdini bounds for the rest
        t = d.fresh('t', nonnegative=True)
        vp, vc = {}, {}
        cand = []     # (symbol, init, 'ge'|'le')
        for p in phis:
            v = init[p.res]
            if p.res in steps_p:
                stp = steps_p[p.res]
                if isinstance(v, Ptr):
                    vp[p.res] = Ptr(v.base, sp.expand(sp.sympify(v.off) + stp * t))
                else:
                    vp[p.res] = sp.expand(sp.sympify(v) + stp * t)      # exact; switched to the modular form below if not inductive
            else:
                h = d.fresh('h')
                vp[p.res] = Ptr(v.base, h) if isinstance(v, Ptr) else h
                if not isinstance(v, Ptr) and p.ty.is_int:
                    cand += [(p.res, h, sp.sympify(v), 'ge'), (p.res, h, sp.sympify(v), 'le')]
        for key, ty in cells:
            if key in steps_c:
                vc[key] = sp.expand(sp.sympify(cinit[key]) + steps_c[key] * t)
            else:
                vc[key] = d.fresh('h', nonnegative=True)
        base_facts_len = len(d.facts)
        tbound = None
        modular = set()

        def exact_ok(sb, new, want):
            lf_ = symx.Leaf(sb.pc, None, sb.store, {}, [], sb.trace, sb.pc_raw, sb.offs, None, sb.reads)
            try:
                for cs in cases_of(d, lf_, self.facts0, extra_terms=[new, want]):
                    if not prove(cs, [fm.le(new, want), fm.le(want, new)])[0]:
                        return False
            except (Unsupported, fm.NonLinear):
                return False
            return True
        for rnd in range(7):
            del d.facts[base_facts_len:]
            if tbound is not None:
                d.facts.append(fm.le(t, tbound))
            for _, h, v0, kind in cand:
                try:
                    d.facts.append(fm.le(v0, h) if kind == 'ge' else fm.le(h, v0))
                except fm.NonLinear:
                    pass
            s2, env2 = make(vp, vc)
            try:
                del it.loop_leaves[mark0:]
                ro2, rets2 = self.region(it, fn, hdr, s2, env2, depth)
            except Unsupported:
                del d.facts[base_facts_len:]
                return None
            # closed forms that are not exactly inductive (the counter wraps on its last step) are kept modulo 2^64
            switched = False
            for p in phis:
                if p.res in steps_p and not isinstance(init[p.res], Ptr) and ('p', p.res) not in modular:
                    for sb, blk, pb in ro2:
                        nv = it.val(p.ops[p.x['labels'].index(pb.name)], sb, fn)
                        if isinstance(nv, Ptr) or nv is TOP or not exact_ok(sb, sp.sympify(nv), sp.expand(vp[p.res] + steps_p[p.res])):
                            kf = d.fresh('k')
                            val = sp.expand(d.strip_wrap(sp.sympify(init[p.res])) + steps_p[p.res] * t + TWO64 * kf)
                            d.wraps.append((kf, val))
                            vp[p.res] = val
                            modular.add(('p', p.res))
                            switched = True
                            break
            for key, ty in cells:
                if key in steps_c and ('c', key) not in modular:
                    for sb, blk, pb in ro2:
                        nv = sb.store[key][0] if key in sb.store else None
                        if nv is None or isinstance(nv, Ptr) or nv is TOP or not exact_ok(sb, sp.sympify(nv), sp.expand(vc[key] + steps_c[key])):
                            kf = d.fresh('k')
                            val = sp.expand(d.strip_wrap(sp.sympify(cinit[key])) + steps_c[key] * t + TWO64 * kf)
                            d.wraps.append((kf, val))
                            vc[key] = val
                            modular.add(('c', key))
                            switched = True
                            break
            if switched:
                continue
            # Houdini: every candidate must hold for the next values on every back edge
            keep = []
            for (res, h, v0, kind) in cand:
                ok = True
                ph = [p for p in phis if p.res == res][0]
                for sb, blk, pb in ro2:
                    nv = it.val(ph.ops[ph.x['labels'].index(pb.name)], sb, fn)
                    if isinstance(nv, Ptr) or nv is TOP:
                        ok = False
                        break
                    lf = symx.Leaf(sb.pc, None, sb.store, {}, [], sb.trace, sb.pc_raw, sb.offs, None, sb.reads)
                    lf.extra_terms = [sp.sympify(nv)]
                    try:
                        goal = fm.le(v0, nv) if kind == 'ge' else fm.le(nv, v0)
                        for cs in cases_of(d, lf, self.facts0, extra_terms=[sp.sympify(nv), h]):
                            if not prove(cs, [goal])[0]:
                                ok = False
                                break
                    except (Unsupported, fm.NonLinear):
                        ok = False
                    if not ok:
                        break
                if ok:
                    keep.append((res, h, v0, kind))
            # a header test  v(t) != B  with v affine runs exactly T = (B - v(0)) / step times: t <= T at the header
            newb = None
            if tbound is None and ro2:
                npc = [c_ for c_ in ro2[0][0].pc[len(s.pc):] if isinstance(c_, alg.Cond) and c_.rel() == '!=' and
                       t in sp.sympify(c_.a - c_.b).free_symbols and not any(str(x).startswith(('cb', 'h', 'cmp')) for x in sp.sympify(c_.a - c_.b).free_symbols)]
                for c in npc[:1]:
                    e = sp.expand(d.strip_wrap(sp.sympify(c.a) - sp.sympify(c.b)))
                    if t in e.free_symbols and sp.degree(e, t) == 1:
                        c1, c0 = e.coeff(t, 1), e.coeff(t, 0)
                        T = divide(-c0, c1) if not c1.is_Number else sp.expand(-c0 / c1)
                        if T is not None and (not T.is_Number or T.is_Integer):
                            lf0 = symx.Leaf(s.pc, None, s.store, {}, [], s.trace, s.pc_raw, s.offs, None, s.reads)
                            try:
                                okT = True
                                for cs in cases_of(d, lf0, self.facts0, extra_terms=[T]):
                                    if not prove(cs, [fm.le(0, T)])[0]:
                                        okT = False
                                if okT:
                                    newb = T
                            except (Unsupported, fm.NonLinear):
                                pass
            if newb is None and tbound is None and not getattr(self, '_ltdone', False) and ro2:
                # header test  v(t) < B  (or >) with unit step: B - v(t) >= 0 holds at the header of every iteration
                npc2 = [c_ for c_ in ro2[0][0].pc[len(s.pc):len(s.pc) + 1] if isinstance(c_, alg.Cond) and c_.rel() in ('<', '>')]
                for c in npc2:
                    e = sp.expand(d.strip_wrap((sp.sympify(c.b) - sp.sympify(c.a)) if c.rel() == '<' else (sp.sympify(c.a) - sp.sympify(c.b))))
                    if t in e.free_symbols and sp.degree(e, t) == 1 and e.coeff(t, 1) == -1 and not any(str(x).startswith(('cb', 'h', 'cmp')) for x in e.free_symbols):
                        e0 = e.coeff(t, 0)
                        lf0 = symx.Leaf(s.pc, None, s.store, {}, [], s.trace, s.pc_raw, s.offs, None, s.reads)
                        try:
                            okT = all(prove(cs, [fm.le(0, e0)])[0] for cs in cases_of(d, lf0, self.facts0, extra_terms=[e0]))
                            if okT:
                                newb = e0
                        except (Unsupported, fm.NonLinear):
                            pass
            if newb is not None:
                tbound = newb
                cand = keep
                continue
            if len(keep) == len(cand):
                # iteration t >= 1 is only reached when iteration t - 1 came back to the header: whatever that back edge demands of
                # the closed forms (a test at the bottom of a do-while in particular) holds with t - 1 for t - and says nothing for
                # t == 0.  Only conditions over t and values that do not change in the loop qualify (a callback result or a loaded
                # byte of iteration t - 1 is a different value than the symbol of the same name in iteration t).
                if not prev_pc and ro2 and len(ro2) == 1:
                    stable = {t}
                    for v_ in list(init.values()) + list(cinit.values()):
                        stable |= (sp.sympify(v_.off).free_symbols if isinstance(v_, Ptr) else sp.sympify(v_).free_symbols)
                    for a_ in fn_args_syms(s):
                        stable.add(a_)
                    wk = set(k for k, _ in d.wraps)
                    newc = []
                    for c_ in ro2[0][0].pc[len(s.pc):]:
                        if not isinstance(c_, alg.Cond):
                            continue
                        fs = sp.sympify(c_.a).free_symbols | sp.sympify(c_.b).free_symbols
                        if t not in fs or fs & wk or not fs <= stable:      # (a wrap count of iteration t says nothing about iteration t - 1)
                            continue
                        try:
                            pa = sp.expand(sp.sympify(c_.a).subs(t, t - 1))
                            pb = sp.expand(sp.sympify(c_.b).subs(t, t - 1))
                        except Exception:
                            continue
                        newc.append(alg.Cond(c_.kind, c_.pred, pa, pb))
                    if newc:
                        first = alg.Cond('icmp', 'eq', t, sp.Integer(0))
                        prev_pc.append(alg.BoolOp('or', [first, alg.BoolOp('and', newc) if len(newc) > 1 else newc[0]]))
                        continue
                break
            cand = keep
        # ---- iteration leaves with their inductiveness obligations
        leaves = getattr(it, 'loop_leaves', None)
        if leaves is None:
            leaves = it.loop_leaves = []
        for sb, blk, pb in ro2:
            obl = []
            for p in phis:
                if p.res in steps_p:
                    nv = it.val(p.ops[p.x['labels'].index(pb.name)], sb, fn)
                    want = vp[p.res]
                    a_ = sp.sympify(nv.off) if isinstance(nv, Ptr) else sp.sympify(nv)
                    b_ = (sp.sympify(want.off) if isinstance(want, Ptr) else sp.sympify(want)) + steps_p[p.res]
                    if sp.expand(d.strip_wrap(a_) - d.strip_wrap(b_)) != 0:
                        obl.append(('%%%s advances by %s per iteration' % (p.res, steps_p[p.res]), a_, sp.expand(b_)))
            for key, ty in cells:
                if key in steps_c:
                    nv = sb.store[key][0]
                    if sp.expand(d.strip_wrap(sp.sympify(nv)) - d.strip_wrap(vc[key] + steps_c[key])) != 0:
                        obl.append(('field %s advances by %s per iteration' % (key[1], steps_c[key]), sp.sympify(nv), sp.expand(vc[key] + steps_c[key])))
            lf = symx.Leaf(sb.pc, None, sb.store, {}, sb.calls, sb.trace, sb.pc_raw, sb.offs, None, sb.reads)
            lf.loop_obligations = obl
            lf.loop_header = hdr.name
            lf.loop_t = t
            lf.loop_cur = {p.res: vp[p.res] for p in phis}
            lf.loop_init = {p.res: init.get(p.res) for p in phis}
            lf.loop_next = {}
            for p in phis:
                try:
                    lf.loop_next[p.res] = it.val(p.ops[p.x['labels'].index(pb.name)], sb, fn)
                except Exception:
                    pass
            lf.loop_names = {p.res: fn.varnames.get(p.res, p.res) for p in phis}
            leaves.append(lf)
        # values of the loop variables at the header (hence behind the exit), by source name - read by rules that tie the code behind
        # the loop to the result of the loop (C04 B10)
        if not hasattr(self, 'exit_vals'):
            self.exit_vals = {}
        ev = {}
        for p_ in phis:
            try:
                ref = fn.varnames.get(p_.res)
                nm = fn.module.var_name(ref) if ref else None
            except Exception:
                nm = None
            if nm:
                ev[nm] = vp[p_.res]
        self.exit_vals[(fn.name, hdr.name)] = ev
        # the same by role: of two integer loop variables the one starting at a constant is the lower end of a search interval
        if not hasattr(self, 'exit_roles'):
            self.exit_roles = {}
        ints_ = [p_ for p_ in phis if not isinstance(init.get(p_.res), Ptr) and not p_.ty.is_ptr]
        if len(ints_) == 2 and len(phis) == 2:
            const_ = [p_ for p_ in ints_ if init.get(p_.res) is not None and sp.sympify(init[p_.res]).is_Integer]
            if len(const_) == 1:
                other_ = [p_ for p_ in ints_ if p_ is not const_[0]][0]
                self.exit_roles[(fn.name, hdr.name)] = {'lo': vp[const_[0].res], 'hi': vp[other_.res]}
        self.notes.append('%s: loop at %s summarised (%d closed forms, %d bounded values, %d iteration paths)' % (
            fn.name, hdr.name, len(steps_p) + len(steps_c), len(set(c[0] for c in cand)), len(ro2)))
        return rets2
