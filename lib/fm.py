"""Fourier-Motzkin entailment over linear integer constraints (DESIGN 3 LIN, appendix B).

A constraint is a dict {symbol: Fraction coefficient, 1: constant} meaning  sum <= 0.  Strict integer
inequalities e < 0 are tightened to e + 1 <= 0 (all quantities are integers).  `unsat` is sound for proving (rational
relaxation); `model` searches an integer witness by back-substitution over candidate values."""
from fractions import Fraction
import sympy as sp
import itertools


class NonLinear(Exception):
    pass


ABSTRACT = {}


def abstract_nonlinear(e):
    """replace applications of uninterpreted integer functions (i_udiv, i_urem, ...) by fresh non-negative symbols (sound:
    only information is lost); products of symbols stay non-linear"""
    from sympy.core.function import AppliedUndef
    for f in sorted(e.atoms(AppliedUndef), key=lambda t: -len(str(t))):
        key = sp.srepr(f)
        if key not in ABSTRACT:
            ABSTRACT[key] = sp.Symbol('u%d' % len(ABSTRACT), integer=True, nonnegative=True)
        e = e.subs(f, ABSTRACT[key])
    return e


def lin(expr):
    """sympy expression -> {sym: Fraction, 1: const}; raises NonLinear"""
    e = sp.expand(abstract_nonlinear(sp.expand(sp.sympify(expr))))
    out = {}
    for term in sp.Add.make_args(e):
        c, rest = term.as_coeff_Mul()
        if not c.is_Rational:
            raise NonLinear(str(term))
        if rest == 1:
            out[1] = out.get(1, 0) + Fraction(int(c.p), int(c.q))
        elif rest.is_Symbol:
            out[rest] = out.get(rest, 0) + Fraction(int(c.p), int(c.q))
        else:
            raise NonLinear(str(term))
    return {k: v for k, v in out.items() if v != 0 or k == 1}


def le(a, b):
    """a <= b"""
    return lin(sp.sympify(a) - sp.sympify(b))


def lt(a, b):
    """a < b  (integers)"""
    return lin(sp.sympify(a) - sp.sympify(b) + 1)


def eq(a, b):
    return [le(a, b), le(b, a)]


def negate(c):
    """not (c <= 0)  ==  -c + 1 <= 0  (integers)"""
    out = {k: -v for k, v in c.items()}
    out[1] = out.get(1, 0) + 1
    return out


def unsat(cons, limit=4000):
    """True if the conjunction has no rational solution (hence no integer one)"""
    cons = [dict(c) for c in cons]
    vars_ = set()
    for c in cons:
        vars_ |= set(k for k in c if k != 1)
    # eliminate variables with the fewest products first
    vars_ = sorted(vars_, key=str)
    while True:
        # trivial contradictions
        rest = []
        for c in cons:
            ks = [k for k in c if k != 1 and c[k] != 0]
            if not ks:
                if c.get(1, 0) > 0:
                    return True
                continue
            rest.append(c)
        cons = rest
        if not cons:
            return False
        live = set()
        for c in cons:
            live |= set(k for k in c if k != 1 and c[k] != 0)
        if not live:
            return False
        best = None
        for v in live:
            pos = sum(1 for c in cons if c.get(v, 0) > 0)
            neg = sum(1 for c in cons if c.get(v, 0) < 0)
            cost = pos * neg - pos - neg
            if best is None or cost < best[0]:
                best = (cost, v)
        v = best[1]
        pos = [c for c in cons if c.get(v, 0) > 0]
        neg = [c for c in cons if c.get(v, 0) < 0]
        new = [c for c in cons if c.get(v, 0) == 0]
        for p in pos:
            for n in neg:
                a, b = p[v], -n[v]
                d = {}
                for k in set(p) | set(n):
                    if k == v:
                        continue
                    val = p.get(k, 0) * b + n.get(k, 0) * a
                    if val != 0 or k == 1:
                        d[k] = val
                new.append(d)
        if len(new) > limit:
            return False   # give up: cannot prove
        # drop duplicates
        seen = set()
        cons = []
        for c in new:
            key = tuple(sorted(((str(k), v) for k, v in c.items() if v != 0 or k == 1)))
            if key not in seen:
                seen.add(key)
                cons.append(c)


def entails(cons, goal):
    """cons |= goal  (goal is one constraint)"""
    return unsat(list(cons) + [negate(goal)])


def holds(c, env):
    s = c.get(1, 0)
    for k, v in c.items():
        if k != 1:
            s += v * env[k]
    return s <= 0


def model(cons, syms, candidates=None, budget=20000):
    """integer witness: Fourier-Motzkin elimination order, then back-substitution choosing an integer inside the bounds"""
    m = model_fm(cons)
    if m is not None and all(holds(c, m) for c in cons):
        return m
    m = model_enum(cons, syms, candidates, budget)
    if m is None:
        m = model_dfs(cons, syms, candidates)
    return m


def model_dfs(cons, syms, candidates=None, budget=400000):
    """integer witness by depth-first assignment over boundary values, a constraint being tested as soon as all of its variables
    are assigned (early pruning makes the search feasible where the plain product is not)"""
    cands = list(candidates or [0, 1, 2, 3, 4, 5, 7, 8, 2 ** 63 - 1, 2 ** 63, 2 ** 64 - 2, 2 ** 64 - 1])
    syms = [s_ for s_ in sorted(syms, key=str)]
    occ = {s_: sum(1 for c in cons if c.get(s_, 0) != 0) for s_ in syms}
    order = sorted(syms, key=lambda s_: (-occ[s_], str(s_)))
    pos = {s_: i for i, s_ in enumerate(order)}
    # constraint -> index of its last variable in the order
    ready = [[] for _ in order]
    for c in cons:
        vs = [k for k in c if k != 1 and c[k] != 0]
        if any(v not in pos for v in vs):
            return None
        if not vs:
            if c.get(1, 0) > 0:
                return None
            continue
        ready[max(pos[v] for v in vs)].append(c)
    env = {}
    count = [0]

    def rec(i):
        if i == len(order):
            return True
        v = order[i]
        for val in cands:
            count[0] += 1
            if count[0] > budget:
                return False
            env[v] = val
            if all(holds(c, env) for c in ready[i]):
                if rec(i + 1):
                    return True
        env.pop(v, None)
        return False
    return dict(env) if rec(0) else None


def model_fm(cons):
    import math
    cons = [dict(c) for c in cons]
    vars_ = set()
    for c in cons:
        vars_ |= set(k for k in c if k != 1 and c[k] != 0)
    order = sorted(vars_, key=str)
    stages = []
    cur = cons
    for v in order:
        pos = [c for c in cur if c.get(v, 0) > 0]
        neg = [c for c in cur if c.get(v, 0) < 0]
        rest = [c for c in cur if c.get(v, 0) == 0]
        stages.append((v, pos, neg))
        new = list(rest)
        for p in pos:
            for n in neg:
                a, b = p[v], -n[v]
                d = {}
                for k in set(p) | set(n):
                    if k == v:
                        continue
                    val = p.get(k, 0) * b + n.get(k, 0) * a
                    if val != 0 or k == 1:
                        d[k] = val
                new.append(d)
        if len(new) > 3000:
            return None
        cur = new
    for c in cur:
        if c.get(1, 0) > 0:
            return None
    env = {}
    for v, pos, neg in reversed(stages):
        lo, hi = None, None
        for c in pos:      # a*v + rest <= 0  -> v <= -rest/a
            rest = c.get(1, 0) + sum(val * env[k] for k, val in c.items() if k not in (1, v) and k in env)
            if any(k not in env for k in c if k not in (1, v) and c[k] != 0):
                continue
            b = Fraction(-rest) / c[v]
            hi = b if hi is None or b < hi else hi
        for c in neg:      # -a*v + rest <= 0 -> v >= rest/a
            rest = c.get(1, 0) + sum(val * env[k] for k, val in c.items() if k not in (1, v) and k in env)
            if any(k not in env for k in c if k not in (1, v) and c[k] != 0):
                continue
            b = Fraction(rest) / (-c[v])
            lo = b if lo is None or b > lo else lo
        if lo is None and hi is None:
            val = 0
        elif lo is None:
            val = math.floor(hi)
        elif hi is None:
            val = math.ceil(lo)
        else:
            val = math.ceil(lo)
            if val > hi:
                return None
        env[v] = int(val)
    return env


def model_enum(cons, syms, candidates=None, budget=20000):
    """integer witness satisfying all constraints: bounded search over boundary values"""
    cands = candidates or [0, 1, 2, 3, 4, 7, 8, 2 ** 63 - 1, 2 ** 63, 2 ** 64 - 2, 2 ** 64 - 1]
    syms = sorted(syms, key=str)
    n = 0
    # also try values derived from constants in the constraints
    extra = set()
    for c in cons:
        k = c.get(1, 0)
        if k.denominator == 1 and abs(k) < 2 ** 65:
            extra.add(abs(int(k)))
            extra.add(abs(int(k)) + 1)
            extra.add(max(0, abs(int(k)) - 1))
    cands = sorted(set(cands) | set(x for x in extra if x < 2 ** 64))
    for vals in itertools.product(cands, repeat=len(syms)):
        n += 1
        if n > budget:
            return None
        env = dict(zip(syms, vals))
        if all(holds(c, env) for c in cons):
            return env
    return None
