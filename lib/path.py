"""PATH - CFG path / typestate / effect rules (DESIGN 3 PATH).

Helpers: allocation sites (indirect calls through the loaded global a_alloc), null-test resolution of branch
conditions, edge-based reachability (may-precede / may-follow), values returned along paths that start at an edge,
must-pass-through queries."""
import llir
import effects
from effects import root_of, callee_name


# ---------------------------------------------------------------- allocation sites
class AllocSite:
    def __init__(self, ins, kind, ptr, size):
        self.ins, self.kind, self.ptr, self.size = ins, kind, ptr, size

    def __repr__(self):
        return '%s@%s' % (self.kind, self.ins.res or self.ins.idx)


def alloc_sites(fn):
    """calls whose callee is a load of @a_alloc; kind: alloc (NULL, n) / free (p, 0) / realloc (p, n)"""
    out = []
    for i in fn.instrs():
        if i.op != 'call':
            continue
        c = i.x['callee']
        if c.k != 'reg':
            continue
        d = fn.defs.get(c.v)
        if d is None or d.op != 'load' or d.ops[0].k != 'global' or d.ops[0].v != 'a_alloc':
            continue
        if len(i.ops) != 2:
            continue
        p, n = i.ops
        if p.k == 'null':
            kind = 'alloc'
        elif n.k == 'int' and n.v == 0:
            kind = 'free'
        else:
            kind = 'realloc'
        out.append(AllocSite(i, kind, p, n))
    return out


# ---------------------------------------------------------------- value tracking
def strip_casts(fn, v):
    """follow bitcasts / zero-index geps back"""
    for _ in range(20):
        if v.k != 'reg':
            return v
        d = fn.defs.get(v.v)
        if d is None:
            return v
        if d.op in ('bitcast', 'addrspacecast'):
            v = d.ops[0]
            continue
        return v
    return v


def derived_from(fn, v, src_res, depth=0, through_phi=True):
    """is value v the register src_res modulo casts (and phis/selects one of whose inputs is it)?"""
    if depth > 12 or v.k != 'reg':
        return False
    if v.v == src_res:
        return True
    d = fn.defs.get(v.v)
    if d is None:
        return False
    if d.op in ('bitcast', 'addrspacecast'):
        return derived_from(fn, d.ops[0], src_res, depth + 1, through_phi)
    if through_phi and d.op == 'phi':
        return any(derived_from(fn, o, src_res, depth + 1, False) for o in d.ops)
    if through_phi and d.op == 'select':
        return any(derived_from(fn, o, src_res, depth + 1, False) for o in d.ops[1:])
    return False


def cond_test(fn, v, depth=0):
    """resolve a branch condition to (kind, reg, truth-means) where
       kind 'null': condition true  <=> register is NON-null when positive is True
       kind 'zero': condition true  <=> integer register is NON-zero when positive is True
       returns (kind, regname, positive) or None"""
    if depth > 12 or v.k != 'reg':
        return None
    d = fn.defs.get(v.v)
    if d is None:
        return None
    if d.op == 'icmp' and d.x['pred'] in ('eq', 'ne'):
        a, b = d.ops
        pos = d.x['pred'] == 'ne'
        for x, y in ((a, b), (b, a)):
            if y.k == 'null' and x.k == 'reg':
                return ('null', strip_casts(fn, x).v if strip_casts(fn, x).k == 'reg' else x.v, pos)
            if y.k == 'int' and y.v == 0 and x.k == 'reg':
                inner = cond_test(fn, x, depth + 1)
                if inner is not None:
                    k, r, p = inner
                    return (k, r, p if pos else not p)
                if x.ty is not None and x.ty.is_ptr:
                    return ('null', x.v, pos)
                return ('zero', x.v, pos)
        return None
    if d.op == 'xor' and d.ops[1].k == 'int' and d.ops[1].v in (1, -1, True):
        inner = cond_test(fn, d.ops[0], depth + 1)
        if inner:
            return (inner[0], inner[1], not inner[2])
        return None
    if d.op in ('zext', 'sext', 'trunc'):
        return cond_test(fn, d.ops[0], depth + 1)
    if d.op == 'call':
        n = callee_name(d)
        if n and n.startswith('llvm.expect'):
            return cond_test(fn, d.ops[0], depth + 1)
    return None


def branch_edges(fn, kind, reg):
    """edges (src_block, dst_block, meaning) for conditional branches that test `reg`:
       meaning True = on this edge the register is non-null / non-zero"""
    out = []
    for b in fn.blocks:
        t = b.term
        if t.op != 'br' or len(t.x['labels']) != 2:
            continue
        ct = cond_test(fn, t.ops[0])
        if ct is None or ct[0] != kind:
            continue
        if not same_value(fn, ct[1], reg):
            continue
        l1, l2 = t.x['labels']
        out.append((b, fn.bmap[l1], ct[2]))
        out.append((b, fn.bmap[l2], not ct[2]))
    return out


def same_value(fn, r1, r2):
    if r1 == r2:
        return True
    for a, b in ((r1, r2), (r2, r1)):
        d = fn.defs.get(a)
        if d is not None and d.op in ('bitcast',) and d.ops[0].k == 'reg' and d.ops[0].v == b:
            return True
    return False


# ---------------------------------------------------------------- reachability
def reach_from(fn, start_blocks):
    seen = set()
    st = list(start_blocks)
    while st:
        b = st.pop()
        if b in seen:
            continue
        seen.add(b)
        st.extend(b.succs)
    return seen


def reach_to(fn, target_blocks):
    seen = set()
    st = list(target_blocks)
    while st:
        b = st.pop()
        if b in seen:
            continue
        seen.add(b)
        st.extend(b.preds)
    return seen


def may_precede(fn, ins, edge):
    """can `ins` execute before control takes `edge` (src, dst)?"""
    src, dst = edge
    if ins.block is src:
        return True  # every non-terminator of src precedes its terminator
    return src in reach_from(fn, ins.block.succs) or False


def may_follow(fn, ins, edge):
    src, dst = edge
    return ins.block in reach_from(fn, [dst])


def returned_values(fn, edge, limit=2000):
    """operands of `ret` reached on paths that start by taking `edge`; phis are resolved along the path.
    -> set of llir.Val (or ('void',))"""
    out = set()
    src, dst = edge
    count = [0]

    def resolve(v, path):
        # resolve phi chains against the path (list of blocks, last = current)
        for _ in range(30):
            if v.k != 'reg':
                return v
            d = fn.defs.get(v.v)
            if d is None or d.op != 'phi':
                return v
            if d.block not in path:
                return v
            i = len(path) - 1 - path[::-1].index(d.block)
            if i == 0:
                return v
            pred = path[i - 1]
            if pred.name not in d.x['labels']:
                return v
            v = d.ops[d.x['labels'].index(pred.name)]
        return v

    def walk(b, path, visited):
        count[0] += 1
        if count[0] > limit:
            return
        path = path + [b]
        t = b.term
        if t.op == 'ret':
            if t.ops:
                out.add(resolve(t.ops[0], path))
            else:
                out.add(llir.Val('void'))
            return
        for s in b.succs:
            if (b, s) in visited:
                continue
            walk(s, path, visited | {(b, s)})
    walk(dst, [src], {(src, dst)})
    return out


def must_pass(fn, start_block, sink_blocks, sink_before=None):
    """does every path from start_block to a return pass through a block in sink_blocks?  -> (True, None) or (False, path)"""
    seen = set()
    st = [(start_block, [start_block])]
    while st:
        b, p = st.pop()
        if b in sink_blocks:
            continue
        if b in seen:
            continue
        seen.add(b)
        if b.term.op == 'ret':
            return False, p
        for s in b.succs:
            st.append((s, p + [s]))
    return True, None


# ---------------------------------------------------------------- boolean structure of branch conditions
def cond_formula(fn, v, depth=0):
    """branch condition as a formula over atoms ('null', reg) [reg != null] and ('zero', reg) [reg != 0]:
       ('atom', kind, reg) | ('not', f) | ('and', f, g) | ('or', f, g) | ('const', bool) | None"""
    if v.k == 'int':
        return ('const', bool(v.v))
    if depth > 14 or v.k != 'reg':
        return None
    d = fn.defs.get(v.v)
    if d is None:
        return None
    if d.op == 'icmp' and d.x['pred'] in ('eq', 'ne'):
        a, b = d.ops
        pos = d.x['pred'] == 'ne'
        for x, y in ((a, b), (b, a)):
            if y.k == 'null' and x.k == 'reg':
                sx = strip_casts(fn, x)
                f = ('atom', 'null', sx.v if sx.k == 'reg' else x.v)
                return f if pos else ('not', f)
            if y.k == 'int' and y.v == 0 and x.k == 'reg':
                inner = cond_formula(fn, x, depth + 1) if (x.ty is not None and x.ty.is_int and x.ty.a <= 64 and is_boolish(fn, x)) else None
                if inner is not None:
                    return inner if pos else ('not', inner)
                f = ('atom', 'null' if (x.ty is not None and x.ty.is_ptr) else 'zero', x.v)
                return f if pos else ('not', f)
        return None
    if d.op == 'xor' and d.ops[1].k == 'int' and d.ops[1].v in (1, -1, True):
        inner = cond_formula(fn, d.ops[0], depth + 1)
        return ('not', inner) if inner else None
    if d.op in ('zext', 'sext', 'trunc'):
        return cond_formula(fn, d.ops[0], depth + 1)
    if d.op == 'call':
        n = callee_name(d)
        if n and n.startswith('llvm.expect'):
            return cond_formula(fn, d.ops[0], depth + 1)
        return None
    if d.op == 'select' and d.ty is not None and d.ty.is_int and d.ty.a == 1:
        c = cond_formula(fn, d.ops[0], depth + 1)
        t, e = d.ops[1], d.ops[2]
        if c is None:
            return None
        if t.k == 'int' and t.v:            # c ? true : e  ==  c or e
            g = cond_formula(fn, e, depth + 1)
            return ('or', c, g) if g else None
        if e.k == 'int' and not e.v:        # c ? t : false ==  c and t
            g = cond_formula(fn, t, depth + 1)
            return ('and', c, g) if g else None
        return None
    if d.op in ('or', 'and') and d.ty is not None and d.ty.is_int and d.ty.a == 1:
        a = cond_formula(fn, d.ops[0], depth + 1)
        b = cond_formula(fn, d.ops[1], depth + 1)
        if a is None or b is None:
            return None
        return (d.op, a, b)
    if d.op == 'phi' and d.ty is not None and d.ty.is_int and d.ty.a == 1:
        return None
    return None


def is_boolish(fn, v):
    d = fn.defs.get(v.v) if v.k == 'reg' else None
    if d is None:
        return False
    if d.op in ('zext', 'sext') and d.ops[0].ty is not None and d.ops[0].ty.is_int and d.ops[0].ty.a == 1:
        return True
    if d.op == 'call':
        n = callee_name(d)
        return bool(n and n.startswith('llvm.expect')) and is_boolish(fn, d.ops[0])
    if d.op in ('icmp', 'xor', 'select', 'and', 'or') and d.ty is not None and d.ty.is_int and d.ty.a == 1:
        return True
    return False


def atoms_of(f, acc=None):
    acc = acc if acc is not None else set()
    if f is None:
        return acc
    if f[0] == 'atom':
        acc.add((f[1], f[2]))
    elif f[0] in ('not',):
        atoms_of(f[1], acc)
    elif f[0] in ('and', 'or'):
        atoms_of(f[1], acc)
        atoms_of(f[2], acc)
    return acc


def evalf(f, env):
    if f[0] == 'const':
        return f[1]
    if f[0] == 'atom':
        return env[(f[1], f[2])]
    if f[0] == 'not':
        return not evalf(f[1], env)
    if f[0] == 'and':
        return evalf(f[1], env) and evalf(f[2], env)
    if f[0] == 'or':
        return evalf(f[1], env) or evalf(f[2], env)
    raise ValueError(f)


def entails(fact, query):
    """fact |= query (both formulas), by truth table over their atoms"""
    import itertools
    at = sorted(atoms_of(fact) | atoms_of(query))
    if len(at) > 10:
        return False
    for vals in itertools.product((False, True), repeat=len(at)):
        env = dict(zip(at, vals))
        if evalf(fact, env) and not evalf(query, env):
            return False
    return True


def cond_edges(fn):
    """[(src, dst, fact formula)] for all two-way branches whose condition has a recognised boolean structure"""
    out = []
    for b in fn.blocks:
        t = b.term
        if t.op != 'br' or len(t.x['labels']) != 2:
            continue
        f = cond_formula(fn, t.ops[0])
        if f is None:
            continue
        out.append((b, fn.bmap[t.x['labels'][0]], f))
        out.append((b, fn.bmap[t.x['labels'][1]], ('not', f)))
    return out


def edges_entailing(fn, query):
    return [(s, d) for s, d, f in cond_edges(fn) if s is not d and entails(f, query)]


def all_paths_cross(fn, from_block, to_block, edges, from_ins=None):
    """does every CFG path from from_block to to_block take one of `edges`?  (remove them: unreachable)"""
    es = set((s.name, d.name) for s, d in edges)
    seen = set()
    st = [from_block]
    while st:
        b = st.pop()
        if b in seen:
            continue
        seen.add(b)
        for s in b.succs:
            if (b.name, s.name) in es:
                continue
            if s is to_block:
                return False
            st.append(s)
    return True
