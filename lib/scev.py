"""AFF - induction-variable and affine-access analysis over symbolic dimensions (DESIGN 3 AFF).

The function is never executed or unrolled: every natural loop is summarised by
  * a closed form  phi(i) = init + sum_{t<i} step(t)  for each header phi whose step is invariant or polynomial in
    already solved phis (pointer cursors and counters; data-dependent phis stay opaque),
  * a trip count T from the header's stay condition (ceil((bound - start)/stride), clipped at zero using the stay
    conditions of the enclosing loops and the case facts as linear facts - Fourier-Motzkin over monomials),
and the body is turned into a *statement tree*  Loop(T)[ Store(base, index, value) | Call | ExitIf | If | Ret ]  whose
indices are polynomials in the loop counters and the symbolic dimensions and whose values are terms over
ld(base, index, tag); tag names the memory state (number of memory-changing items that precede the load in its region).
Integer arithmetic is read without wrap-around (assumption recorded by the callers)."""
import itertools
import sympy as sp
import llir, fm
from symx import Unsupported

ld = sp.Function('ld')


def mksel(pred, a, b, x, y):
    """sel(pred, a, b, x, y) = x if (a pred b) else y, with the comparison in a canonical spelling (lt / le / eq only)"""
    pred = str(pred)
    if pred == 'gt':
        pred, a, b = 'lt', b, a
    elif pred == 'ge':
        pred, a, b = 'le', b, a
    elif pred == 'ne':
        pred, x, y = 'eq', y, x
    if pred == 'eq' and str(a) > str(b):
        a, b = b, a
    return sel(sp.Symbol(pred), a, b, x, y)
ldraw = sp.Function('ldraw')


class Defer(Exception):
    pass
sel = sp.Function('sel')
PURE = {'fabs': 'abs', 'fabsf': 'abs', 'llvm.fabs.f64': 'abs', 'llvm.fabs.f32': 'abs', 'sqrt': 'sqrt', 'sqrtf': 'sqrt',
        'llvm.sqrt.f64': 'sqrt', 'llvm.sqrt.f32': 'sqrt', 'log': 'log', 'logf': 'log', 'llvm.log.f64': 'log',
        'llvm.log.f32': 'log'}


class Cmp:
    """comparison  a pred b  (pred in lt le gt ge eq ne, plus 'f' prefix for floating compares)"""
    def __init__(self, pred, a, b, fp=False):
        self.pred, self.a, self.b, self.fp = pred, a, b, fp

    def neg(self):
        return Cmp({'lt': 'ge', 'ge': 'lt', 'gt': 'le', 'le': 'gt', 'eq': 'ne', 'ne': 'eq'}[self.pred], self.a, self.b, self.fp)

    def subs(self, f):
        return Cmp(self.pred, f(self.a), f(self.b), self.fp)

    def norm(self):
        """canonical (pred, a, b) with pred in lt le eq ne"""
        if self.pred == 'gt':
            return ('lt', self.b, self.a)
        if self.pred == 'ge':
            return ('le', self.b, self.a)
        return (self.pred, self.a, self.b)

    def __repr__(self):
        return '(%s %s %s)' % (self.a, self.pred, self.b)


IPRED = {'ult': 'lt', 'slt': 'lt', 'ule': 'le', 'sle': 'le', 'ugt': 'gt', 'sgt': 'gt', 'uge': 'ge', 'sge': 'ge', 'eq': 'eq',
         'ne': 'ne', 'olt': 'lt', 'ole': 'le', 'ogt': 'gt', 'oge': 'ge', 'oeq': 'eq', 'one': 'ne', 'une': 'ne', 'ueq': 'eq',
         'ult_f': 'lt'}


class LoopInfo:
    def __init__(self, header, blocks, latches):
        self.header, self.blocks, self.latches = header, blocks, latches
        self.parent = None
        self.children = []
        self.counter = sp.Symbol('i_' + header.name.replace('.', '_'), integer=True, nonnegative=True)
        self.phis = [i for i in header.instrs if i.op == 'phi']
        self.P = {}
        self.closed = None
        self.T = None
        self.stay = None
        self.exit_block = None
        self.body_entry = None
        self.bottom = False
        self.test_block = None
        self.solving = False
        self.solving_T = False

    def __repr__(self):
        return '<loop %s>' % self.header.name


class Item:
    def __init__(self, kind, **kw):
        self.kind = kind
        self.__dict__.update(kw)

    def __repr__(self):
        d = {k: v for k, v in self.__dict__.items() if k not in ('kind', 'ins', 'loop')}
        return '%s%s' % (self.kind, d)


class Aff:
    def __init__(self, fn, facts=(), lookup=None, free=None):
        """facts: list of fm constraints (dicts) over the parameter symbols"""
        self.fn = fn
        self.lookup = lookup
        self.params = {}
        self.ptrs = set()
        for t, n in fn.params:
            if t.is_ptr:
                s = sp.Symbol(n, real=True)
                self.ptrs.add(s)
            elif t.is_fp:
                s = sp.Symbol(n, real=True)
            else:
                s = sp.Symbol(n, integer=True, positive=True)
            self.params[n] = s
        self.base_facts = list(facts)
        self.memo = {}
        self.opaque = set()
        self.no_inner = []
        self.folds = {}
        self.ptrloads = {}
        self.ptrdef = {}
        self.callres = {}
        self.loops = {}
        ls = [LoopInfo(h, bl, lat) for h, bl, lat in fn.loops()]
        for l in ls:
            best = None
            for l2 in ls:
                if l2 is not l and l.header in l2.blocks and l.blocks < l2.blocks:
                    if best is None or len(l2.blocks) < len(best.blocks):
                        best = l2
            l.parent = best
            self.loops[l.header.name] = l
        for l in ls:
            if l.parent:
                l.parent.children.append(l)
        self.inner = {}
        for b in fn.blocks:
            best = None
            for l in ls:
                if b in l.blocks and (best is None or len(l.blocks) < len(best.blocks)):
                    best = l
            self.inner[b.name] = best
        for l in ls:
            t = l.header.term
            labs = [fn.bmap[x] for x in t.x['labels']] if t.op == 'br' else []
            if t.op == 'br' and t.ops and len(labs) == 2 and (labs[0] in l.blocks) != (labs[1] in l.blocks) and \
                    (labs[0] if labs[0] in l.blocks else labs[1]) is not l.header:
                a, b = labs
                l.body_entry, l.exit_block = (a, b) if a in l.blocks else (b, a)
                l.stay_true = a in l.blocks
                l.bottom = False
                l.test_block = l.header
                continue
            # tested at the bottom: one latch whose conditional branch goes back to the header or out of the loop
            if len(l.latches) != 1:
                raise Unsupported('loop %s of %s does not exit from its header' % (l.header.name, fn.name))
            lt = l.latches[0]
            tt = lt.term
            labs = [fn.bmap[x] for x in tt.x['labels']] if tt.op == 'br' else []
            if tt.op != 'br' or not tt.ops or len(labs) != 2 or l.header not in labs or all(x in l.blocks for x in labs):
                raise Unsupported('loop %s of %s does not exit from its header' % (l.header.name, fn.name))
            l.body_entry = l.header
            l.exit_block = labs[1] if labs[0] is l.header else labs[0]
            l.stay_true = labs[0] is l.header
            l.bottom = True
            l.test_block = lt
        self.loadtag = {}
        self.tree = None
        self.forced = {}     # block name -> name of the only successor that can be taken (decided branches, see emit_pruned)

    # ------------------------------------------------------------------ facts / proving
    def chain(self, loop):
        out = []
        while loop is not None:
            out.append(loop)
            loop = loop.parent
        return out

    def mono(self, e, table):
        """polynomial -> linear form over monomial atoms"""
        e = sp.expand(e)
        out = {}
        for term in sp.Add.make_args(e):
            c, rest = term.as_coeff_Mul()
            if not c.is_Rational:
                raise fm.NonLinear(str(term))
            from fractions import Fraction
            cf = Fraction(int(c.p), int(c.q))
            if rest == 1:
                out[1] = out.get(1, 0) + cf
            else:
                if not rest.is_Symbol:
                    key = sp.srepr(rest)
                    if key not in table:
                        table[key] = (sp.Symbol('m%d' % len(table)), rest)
                    rest = table[key][0]
                out[rest] = out.get(rest, 0) + cf
        return out

    def early_sub(self, e):
        for _ in range(8):
            sub = {}
            for l in self.loops.values():
                src = l.closed if l.closed is not None else getattr(l, 'early', None)
                if src:
                    for r, p in l.P.items():
                        if r in src and p in e.free_symbols:
                            sub[p] = src[r]
            if not sub:
                return e
            e = e.subs(sub, simultaneous=True)
        return e

    def facts_for(self, loop):
        """expressions known to be >= 0 inside the body of `loop` (and its ancestors)"""
        exprs = list(self.base_facts)
        for l in self.chain(loop):
            if l.stay is not None and not l.solving_T and not l.bottom:
                exprs.extend(self.cmp_ge(l.stay))
                if l.stay.pred == 'ne' and l.T is not None:
                    pass
            exprs.append(l.counter)
            if l.T is not None:
                exprs.append(l.T - 1 - l.counter)
        return exprs

    def cmp_ge(self, c):
        """Cmp over integers -> list of expressions known to be >= 0"""
        p, a, b = c.pred, c.a, c.b
        if c.fp:
            return []
        if p == 'lt':
            return [b - a - 1]
        if p == 'le':
            return [b - a]
        if p == 'gt':
            return [a - b - 1]
        if p == 'ge':
            return [a - b]
        if p == 'eq':
            return [a - b, b - a]
        return []

    def prove_ge0(self, e, ge_facts):
        """e >= 0 from the list of expressions known to be >= 0 (and sign assumptions of the symbols)"""
        e = sp.expand(self.early_sub(sp.sympify(e)))
        if e.is_number:
            return bool(e >= 0)
        if e.is_nonnegative:
            return True
        # the strict-inequality tightening of fm is valid for integer-valued forms only
        if any(not c_.is_Integer for c_ in e.as_coefficients_dict().values()):
            return False
        ge_facts = [self.early_sub(sp.sympify(g)) for g in ge_facts]
        table = {}
        try:
            goal = self.mono(-e, table)     # -e <= 0
            cons = []
            for g in ge_facts:
                cons.append(self.mono(-sp.expand(g), table))
        except fm.NonLinear:
            return False
        syms = set()
        for c in cons + [goal]:
            syms |= set(k for k in c if k != 1)
        for s in list(syms):
            orig = s
            for key, (ms, rest) in table.items():
                if ms is s:
                    orig = rest
            if orig.is_positive:
                cons.append({s: -1, 1: 1})
            elif orig.is_nonnegative:
                cons.append({s: -1, 1: 0})
        # products of known non-negative monomials with facts: m = x*y, with fact (b - x - 1 >= 0) => b*y - m - y >= 0
        extra = []
        for key, (ms, rest) in list(table.items()):
            if rest.is_Mul:
                for g in ge_facts:
                    g = sp.expand(g)
                    for fac in rest.args:
                        if fac.is_Symbol and fac in g.free_symbols and (fac.is_nonnegative or fac.is_positive):
                            other = rest / fac
                            if other.is_nonnegative or other.is_positive:
                                try:
                                    extra.append(self.mono(-sp.expand(g * other), table))
                                except fm.NonLinear:
                                    pass
        # sign facts for monomials introduced by the products
        for key, (ms, rest) in table.items():
            if rest.is_nonnegative or rest.is_positive:
                cons.append({ms: -1, 1: 0})
        return fm.entails(cons + extra, goal)

    def prove_ge0_sel(self, e, ge_facts):
        """e >= 0 where e may contain sel(...) terms: proved with each such term replaced by either of its arms"""
        e = sp.expand(self.early_sub(sp.sympify(e)))
        sels = sorted((t for t in e.atoms(sp.Function) if t.func == sel), key=str)
        if not sels or len(sels) > 3:
            return self.prove_ge0(e, ge_facts)
        t = sels[0]
        return all(self.prove_ge0_sel(e.subs(t, arm), ge_facts) for arm in (t.args[3], t.args[4]))

    def decide(self, c, ge_facts=()):
        """truth of an integer comparison under the facts: True / False / None"""
        if c.fp:
            return None
        facts = list(self.base_facts) + list(ge_facts)

        def holds(c_):
            p, a, b = c_.pred, sp.sympify(c_.a), sp.sympify(c_.b)
            if p == 'ne':
                return self.prove_ge0_sel(a - b - 1, facts) or self.prove_ge0_sel(b - a - 1, facts)
            return all(self.prove_ge0_sel(g, facts) for g in self.cmp_ge(c_))
        try:
            if holds(c):
                return True
            if holds(c.neg()):
                return False
        except (fm.NonLinear, Unsupported):
            pass
        return None

    def prove_eq(self, a, b, ge_facts=()):
        d = sp.expand(a - b)
        if d == 0:
            return True
        return self.prove_ge0(d, ge_facts) and self.prove_ge0(-d, ge_facts)

    # ------------------------------------------------------------------ expression evaluation
    def const(self, v):
        if v.k == 'int':
            return sp.Integer(v.v)
        if v.k == 'fp':
            x = v.v
            if isinstance(x, float):
                if x == int(x):
                    return sp.Integer(int(x))
                return sp.Rational(repr(x))
            return sp.nsimplify(x)
        if v.k in ('null', 'zero'):
            return sp.Integer(0)
        if v.k == 'undef':
            return sp.Symbol('undef')
        raise Unsupported('operand %r' % (v,))

    def ev(self, v, use_block):
        if v.k != 'reg':
            if v.k == 'global':
                s = sp.Symbol('@' + v.v, real=True)
                return s
            if v.k == 'cexpr':
                raise Unsupported('constant expression operand')
            return self.const(v)
        d = self.fn.defs.get(v.v)
        if d is None:
            if v.v not in self.params:
                raise Unsupported('unknown register %%%s' % v.v)
            return self.params[v.v]
        e = self.expr_of(d)
        # leaving loops: the value is defined in the header of every loop it leaves
        dl = self.inner[d.block.name]
        ul = self.inner[use_block.name]
        uchain = self.chain(ul)
        l = dl
        while l is not None and l not in uchain:
            if d.block is not l.header and not self.invariant_in(e, l) and not (l.bottom and self.fn.dominates(d.block, l.test_block)):
                raise Unsupported('%%%s leaves loop %s but is not defined in its header' % (v.v, l.header.name))
            self.solve(l)
            e = self.at_exit(e, l)
            l = l.parent
        return e

    def invariant_in(self, e, l):
        return not any(s in e.free_symbols for s in l.P.values())

    def at_exit(self, e, l):
        """value of a header-defined expression (in placeholders of l) when the loop is left through its header"""
        sub = {p: l.closed[r] for r, p in l.P.items() if p in e.free_symbols}
        e = e.subs(sub, simultaneous=True)
        if l.counter in e.free_symbols:
            if l.T is None:
                raise Unsupported('trip count of %s unknown' % l.header.name)
            e = e.subs(l.counter, l.T - 1 if l.bottom else l.T)
        return sp.expand(e) if e.is_polynomial() else e

    def expr_of(self, d):
        if d.res in self.memo:
            return self.memo[d.res]
        e = self.compute(d)
        self.memo[d.res] = e
        return e

    def elem(self, ty):
        import symx
        return symx.sizeof(ty, self.fn.module.structs)

    def compute(self, d):
        fn = self.fn
        b = d.block
        op = d.op
        if op == 'phi':
            l = self.inner[b.name]
            if l is not None and b is l.header:
                if d.res not in l.P:
                    isint = d.ty.is_int
                    l.P[d.res] = sp.Symbol('P_' + d.res.replace('.', '_'), integer=True, nonnegative=True) if isint else \
                        sp.Symbol('P_' + d.res.replace('.', '_'), real=True)
                return l.P[d.res]
            if len(d.ops) == 1:
                src = fn.bmap[d.x['labels'][0]]
                return self.ev(d.ops[0], b)
            vals = [self.ev_edge(o, fn.bmap[lb], b) for o, lb in zip(d.ops, d.x['labels'])]
            if all(sp.expand(v - vals[0]) == 0 for v in vals[1:]):
                return vals[0]
            if len(vals) == 2:
                c = self.merge_cond(d)
                if c is not None:
                    cmp_, first_true = c
                    x, y = (vals[0], vals[1]) if first_true else (vals[1], vals[0])
                    return mksel(cmp_.pred, cmp_.a, cmp_.b, x, y)
            s = sp.Symbol('mrg_' + d.res.replace('.', '_'), real=True)
            self.opaque.add(s)
            return s
        if op in ('add', 'sub', 'mul', 'fadd', 'fsub', 'fmul', 'fdiv', 'shl', 'udiv', 'sdiv'):
            x, y = self.ev(d.ops[0], b), self.ev(d.ops[1], b)
            if op in ('add', 'fadd'):
                return x + y
            if op in ('sub', 'fsub'):
                return x - y
            if op in ('mul', 'fmul'):
                return x * y
            if op == 'fdiv':
                return x / y
            if op == 'shl' and y.is_Integer:
                return x * 2 ** int(y)
            if op in ('udiv', 'sdiv') and y.is_Integer and x.is_Integer:
                return sp.Integer(int(x) // int(y))
            raise Unsupported('integer %s with symbolic operands' % op)
        if op == 'fneg':
            return -self.ev(d.ops[0], b)
        if op in ('zext', 'sext', 'trunc', 'bitcast', 'sitofp', 'uitofp', 'fpext', 'fptrunc', 'ptrtoint', 'inttoptr'):
            src = d.ops[0]
            if op in ('zext', 'uitofp', 'sitofp') and src.k == 'reg':
                sd = fn.defs.get(src.v)
                if sd is not None and sd.op in ('icmp', 'fcmp'):
                    c = self.cmp_of(sd)
                    if c.pred == 'eq':
                        return sp.KroneckerDelta(c.a, c.b)
                    if c.pred == 'ne':
                        return 1 - sp.KroneckerDelta(c.a, c.b)
                    raise Unsupported('comparison result used as a number')
            return self.ev(src, b)
        if op == 'gep':
            p = self.ev(d.ops[0], b)
            bt = d.x['bt']
            idx = d.ops[1:]
            off = self.ev(idx[0], b) * self.elem(bt)
            t = bt
            import symx
            for ix in idx[1:]:
                if t.k == 'struct' or t.k == 'lit':
                    body = self.fn.module.structs.get(t.a) if t.k == 'struct' else list(t.a)
                    if body is None or ix.k != 'int':
                        raise Unsupported('gep into an opaque struct')
                    offs = symx.struct_layout(body, self.fn.module.structs)[2]
                    off = off + offs[ix.v]
                    t = body[ix.v]
                elif t.k == 'array':
                    off = off + self.ev(ix, b) * self.elem(t.b)
                    t = t.b
                else:
                    raise Unsupported('structured gep')
            return p + off
        if op == 'load':
            p = self.ev(d.ops[0], b)
            tag = self.loadtag.get(id(d))
            if tag is None:
                self.structure()
                tag = self.loadtag.get(id(d))
            if tag is None:
                raise Unsupported('load outside the linearised regions')
            v = ldraw(p, sp.Integer(self.elem(d.ty)), sp.Symbol(tag))
            if d.ty.is_ptr:
                # a pointer read from memory is a base in its own right
                key = sp.srepr(v)
                if key not in self.ptrloads:
                    sy = sp.Symbol('ptr%d_%s' % (len(self.ptrloads), d.res.replace('.', '_')), real=True)
                    self.ptrloads[key] = (sy, v)
                    self.ptrs.add(sy)
                    self.ptrdef[sy] = v
                return self.ptrloads[key][0]
            return v
        if op == 'select':
            c = self.cmp_of(fn.defs[d.ops[0].v]) if d.ops[0].k == 'reg' and fn.defs.get(d.ops[0].v) is not None and \
                fn.defs[d.ops[0].v].op in ('icmp', 'fcmp') else None
            x, y = self.ev(d.ops[1], b), self.ev(d.ops[2], b)
            if c is not None and not c.fp:
                facts = self.facts_for(self.inner[b.name])
                if all(self.prove_ge0(g, facts) for g in self.cmp_ge(c)) and self.cmp_ge(c):
                    return x
                n = c.neg()
                if all(self.prove_ge0(g, facts) for g in self.cmp_ge(n)) and self.cmp_ge(n):
                    return y
            if c is None:
                raise Unsupported('select on a non-comparison')
            return mksel(c.pred, c.a, c.b, x, y)
        if op == 'call':
            name = d.x.get('callee').v if d.x.get('callee') is not None and d.x['callee'].k == 'global' else None
            if name in PURE:
                args = [self.ev(o, b) for o in d.ops]
                f = PURE[name]
                if f == 'abs':
                    return sp.Abs(args[0])
                if f == 'sqrt':
                    return sp.sqrt(args[0])
                return sp.log(args[0])
            if name and self.lookup:
                callee = self.lookup(name)
                if callee is not None and len(callee.blocks) == 1:
                    # single-block pure helper (a_real_abs style): inline by evaluation
                    sub = Aff(callee, lookup=self.lookup)
                    for (t, n), o in zip(callee.params, d.ops):
                        sub.params[n] = self.ev(o, b)
                    r = callee.blocks[0].term
                    if r.op == 'ret' and r.ops and not any(i.op in ('store', 'load') for i in callee.blocks[0].instrs):
                        return sub.ev(r.ops[0], callee.blocks[0])
            # a call with a result that is not pure: its value is an unknown of its own (the call itself is an item of the tree)
            if d.res not in self.callres:
                if d.ty is not None and d.ty.is_ptr:
                    sy = sp.Symbol('ret_%s' % d.res.replace('.', '_'), real=True)
                    self.ptrs.add(sy)
                elif d.ty is not None and d.ty.is_int:
                    sy = sp.Symbol('ret_%s' % d.res.replace('.', '_'), integer=True, nonnegative=True)
                else:
                    sy = sp.Symbol('ret_%s' % d.res.replace('.', '_'), real=True)
                self.callres[d.res] = sy
            return self.callres[d.res]
        if op in ('icmp', 'fcmp'):
            raise Unsupported('comparison used as a value')
        raise Unsupported('instruction %s' % op)

    def merge_cond(self, d):
        """two-way merge phi: the controlling comparison and whether the first incoming value is the one taken when it is true"""
        fn = self.fn
        b = d.block
        dom = fn.idom().get(b)
        if dom is None or dom.term.op != 'br' or len(dom.term.x['labels']) != 2 or not dom.term.ops:
            return None
        t, f = [fn.bmap[x] for x in dom.term.x['labels']]
        p0, p1 = [fn.bmap[x] for x in d.x['labels']]

        def side(p):
            # which successor of dom leads to predecessor p (or p is dom itself: the edge dom->b)
            if p is dom:
                return 't' if t is b else ('f' if f is b else None)
            rt = t is not b and (t is p or fn.reachable(t, p, avoid=(dom, b)))
            rf = f is not b and (f is p or fn.reachable(f, p, avoid=(dom, b)))
            if rt and not rf:
                return 't'
            if rf and not rt:
                return 'f'
            return None
        s0, s1 = side(p0), side(p1)
        if s0 is None or s1 is None or s0 == s1:
            return None
        try:
            c = self.cond_of(dom.term.ops[0], dom)
        except Unsupported:
            return None
        return c, s0 == 't'

    def ev_edge(self, v, src, dst):
        """operand of a phi in dst flowing along src->dst"""
        return self.ev(v, src)

    def cmp_of(self, d):
        b = d.block
        p = IPRED.get(d.x['pred'])
        if p is None:
            raise Unsupported('predicate %s' % d.x['pred'])
        return Cmp(p, self.ev(d.ops[0], b), self.ev(d.ops[1], b), fp=(d.op == 'fcmp'))

    def cond_of(self, v, b):
        if v.k != 'reg' or self.fn.defs.get(v.v) is None:
            raise Unsupported('branch on a non-comparison')
        d = self.fn.defs[v.v]
        if d.op in ('icmp', 'fcmp'):
            return self.cmp_of(d)
        if d.op == 'xor' and d.ops[1].k == 'int' and d.ops[1].v in (1, -1, True):
            return self.cond_of(d.ops[0], b).neg()
        raise Unsupported('branch on %s' % d.op)

    def split(self, p, size):
        """pointer expression -> (base symbol, element index)"""
        p = sp.expand(p)
        bases = [s for s in p.free_symbols if s in self.ptrs or s.name.startswith('@')]
        bases = [s for s in bases if sp.expand(p).coeff(s) == 1]
        if len(bases) != 1:
            raise Unsupported('address %s has no unique base' % p)
        off = sp.expand(p - bases[0])
        return bases[0], sp.expand(off / size)

    # ------------------------------------------------------------------ loops
    def solve(self, l):
        if l.closed is not None:
            return
        if l.solving:
            if self.no_inner and self.no_inner[-1] is not None:
                raise Defer()
            raise Unsupported('recursive loop dependency at %s' % l.header.name)
        if self.no_inner and self.no_inner[-1] is not None and self.no_inner[-1] is not l:
            raise Defer()
        l.solving = True
        l.solving_T = True
        fn = self.fn
        for ph in l.phis:
            self.expr_of(ph)
        init, nxt = {}, {}
        for ph in l.phis:
            for o, lb in zip(ph.ops, ph.x['labels']):
                src = fn.bmap[lb]
                if src in l.blocks:
                    if ph.res in nxt:
                        raise Unsupported('loop %s has several latches' % l.header.name)
                    nxt[ph.res] = (o, src)
                else:
                    if ph.res in init:
                        raise Unsupported('loop %s has several entries' % l.header.name)
                    init[ph.res] = self.ev(o, src)
        l.init = init
        closed = {}
        l.early = closed
        own = {l.P[r]: r for r in l.P}
        i = l.counter
        t_ = sp.Symbol('t_', integer=True, nonnegative=True)

        def settle(step):
            pending = dict(step)
            progress = True
            while pending and progress:
                progress = False
                for r in list(pending):
                    s = pending[r]
                    s = sp.expand(s) if s.is_polynomial() else s
                    deps = [own[x] for x in s.free_symbols if x in own]
                    nv = sp.expand(s + l.P[r])
                    if l.P[r] not in nv.free_symbols and not (nv.has(ldraw) or nv.has(sel)) and \
                            all(dp in closed for dp in deps if dp != r) and r in deps:
                        # the update does not depend on the previous value: first iteration init, later the new value
                        nv2 = nv.subs({l.P[dp]: closed[dp] for dp in deps if dp != r}, simultaneous=True)
                        if i not in nv2.free_symbols:
                            closed[r] = sp.Piecewise((init[r], sp.Eq(i, 0)), (nv2, True))
                            del pending[r]
                            progress = True
                            continue
                    if r in deps or any(dp not in closed for dp in deps) or s.has(ldraw) or s.has(sel):
                        continue
                    s2 = s.subs({l.P[dp]: closed[dp] for dp in deps}, simultaneous=True)
                    if any(x in self.opaque for x in s2.free_symbols) or not s2.is_polynomial(i):
                        continue
                    tot = sp.summation(s2.subs(i, t_), (t_, 0, i - 1))
                    closed[r] = sp.expand(init[r] + tot)
                    del pending[r]
                    progress = True
            return pending
        # phase 1: phis whose update does not involve inner loops
        step = {}
        late = {}
        self.no_inner.append(l)
        try:
            for r, (o, src) in nxt.items():
                try:
                    step[r] = self.ev(o, src) - l.P[r]
                except Defer:
                    late[r] = (o, src)
            pend1 = settle(step)
            try:
                c = self.cond_of(l.test_block.term.ops[0], l.test_block)
                l.stay = c if l.stay_true else c.neg()
            except Defer:
                l.stay = None
        finally:
            self.no_inner.pop()
        l.solving_T = False
        if l.stay is not None:
            l.T = self.trip(l, partial=True)
        # phase 2: the rest (inner loops are summarised with the facts gathered so far)
        self.no_inner.append(None)
        try:
            step2 = dict(pend1)
            for r, (o, src) in late.items():
                step2[r] = self.ev(o, src) - l.P[r]
            pending = settle(step2)
            if l.stay is None:
                c = self.cond_of(l.test_block.term.ops[0], l.test_block)
                l.stay = c if l.stay_true else c.neg()
        finally:
            self.no_inner.pop()
        for r in pending:
            sy = sp.Symbol('opq_' + r.replace('.', '_'), real=True)
            self.opaque.add(sy)
            closed[r] = sy
            self.folds[sy] = (l, init[r], pending[r] + l.P[r], l.P[r])
        l.closed = closed
        if l.T is None:
            l.T = self.trip(l)
        l.solving = False

    def trip(self, l, partial=False):
        c = l.stay
        src = l.early if partial else l.closed
        sub = {p: src[r] for r, p in l.P.items() if r in src}
        f = lambda e: sp.expand(self.early_sub(e.subs(sub, simultaneous=True)))
        a, b = f(c.a), f(c.b)
        i = l.counter
        p = c.pred
        if c.fp:
            return None
        if p == 'lt':
            g = b - a
        elif p == 'le':
            g = b - a + 1
        elif p == 'gt':
            g = a - b
        elif p == 'ge':
            g = a - b + 1
        elif p == 'ne':
            g = a - b
            if sp.expand(g).coeff(i, 1).is_positive or (sp.expand(g).coeff(i, 1).is_Number and sp.expand(g).coeff(i, 1) > 0):
                g = b - a
        else:
            return None
        g = sp.expand(g)
        if any(s in self.opaque or s in l.P.values() for s in g.free_symbols) or not g.is_polynomial(i) or sp.degree(g, i) != 1:
            return None
        s = -g.coeff(i, 1)
        g0 = g.coeff(i, 0)
        facts = self.facts_for(l.parent) + self.guard_facts(l)
        if not (s.is_positive or self.prove_ge0(s - 1, facts)):
            return None
        if p == 'ne' and s != 1:
            return None
        if s == 1:
            q = g0
        else:
            syms = sorted((g0.free_symbols | s.free_symbols), key=str)
            if not syms:
                q = sp.ceiling(g0 / s)
            else:
                q, rem = sp.div(sp.Poly(g0, *syms), sp.Poly(s, *syms))
                q, rem = q.as_expr(), rem.as_expr()
                if rem != 0:
                    # g0 = s q + rem: ceil = q if -s < rem <= 0, q + 1 if 0 < rem <= s
                    if self.prove_ge0(-rem, facts) and self.prove_ge0(s + rem - 1, facts):
                        pass
                    elif self.prove_ge0(rem - 1, facts) and self.prove_ge0(s - rem, facts):
                        q = q + 1
                    else:
                        return None
        q = sp.expand(q)
        # a loop tested at the bottom runs its body once more than its test succeeds
        one = 1 if l.bottom else 0
        if self.prove_ge0(q, facts):
            return sp.expand(q + one)
        if self.prove_ge0(-q, facts):
            return sp.Integer(one)
        return sp.Max(0, q) + one

    def nonneg(self, e):
        e = sp.sympify(e)
        if e.is_number:
            return bool(e >= 0)
        if e.is_Symbol:
            return bool(e.is_nonnegative)
        if e.func == sel:
            return self.nonneg(e.args[3]) and self.nonneg(e.args[4])
        if e.is_Add or e.is_Mul:
            return all(self.nonneg(a) for a in e.args)
        return False

    def guard_facts(self, l):
        """expressions >= 0 from the branch conditions that dominate the entry of loop l (`if (n) do ... while (--n)`)"""
        fn = self.fn
        out = []
        idom = fn.idom()
        ok_loops = self.chain(l.parent)
        d = idom.get(l.header)
        while d is not None:
            il = self.inner[d.name]
            t = d.term
            if (il is None or il in ok_loops) and t.op == 'br' and t.ops and len(t.x['labels']) == 2 and not (il is not None and d is il.test_block):
                s1, s2 = [fn.bmap[x] for x in t.x['labels']]
                r1 = s1 is l.header or fn.reachable(s1, l.header, avoid=(d,))
                r2 = s2 is l.header or fn.reachable(s2, l.header, avoid=(d,))
                if r1 != r2:
                    try:
                        c = self.cond_of(t.ops[0], d)
                        if not r1:
                            c = c.neg()
                        if not c.fp:
                            out.extend(self.cmp_ge(c))
                            if c.pred == 'ne':
                                a, b = sp.expand(self.early_sub(sp.sympify(c.a))), sp.expand(self.early_sub(sp.sympify(c.b)))
                                if b == 0 and self.nonneg(a):
                                    out.append(a - 1)
                                elif a == 0 and self.nonneg(b):
                                    out.append(b - 1)
                    except (Unsupported, Defer):
                        pass
            nd = idom.get(d)
            if nd is d:
                break
            d = nd
        return out

    # ------------------------------------------------------------------ structure
    def is_pure_call(self, ins):
        c = ins.x.get('callee')
        name = c.v if c is not None and c.k == 'global' else None
        if name is None:
            return False
        if name.startswith('llvm.dbg') or name.startswith('llvm.lifetime'):
            return True
        if name in PURE:
            return True
        if self.lookup:
            callee = self.lookup(name)
            if callee is not None and len(callee.blocks) == 1 and not any(i.op in ('store', 'load', 'call') and not (
                    i.op == 'call' and (i.x['callee'].v.startswith('llvm.dbg') or i.x['callee'].v in PURE)) for i in callee.blocks[0].instrs):
                return True
        return False

    def structure(self):
        if self.tree is None:
            self.tree = self.seq(self.fn.entry, None, '', None)
        return self.tree

    def fwd_reach(self, a, loop, stop=None):
        seen = set()
        st = [a]
        while st:
            n = st.pop()
            if n in seen or n is stop:
                continue
            if loop is not None and (n not in loop.blocks or n is loop.header):
                continue
            seen.add(n)
            st.extend(n.succs)
        return seen

    def seq(self, b, loop, path, stop, came=None):
        fn = self.fn
        items = []
        mem = 0
        first = True
        trail = [came] if came is not None else []
        while True:
            if b is stop:
                return items
            if not trail or trail[-1] is not b:
                if came is not None and (not trail or trail[-1] is not came):
                    trail.append(came)
                trail.append(b)
            il = self.inner[b.name]
            if il is not None and il is not loop and b is il.header:
                if il.parent is not loop:
                    raise Unsupported('irreducible nesting at %s' % b.name)
                # side exits of the inner loop other than through its header must be aborts (handled inside)
                body = self.seq(il.header, il, '%s/%d' % (path, mem), None)
                items.append(Item('Loop', loop=il, body=body, path='%s/%d' % (path, mem)))
                mem += 1
                came = il.header
                b = il.exit_block
                continue
            for ins in b.instrs[:-1]:
                if ins.op == 'load':
                    self.loadtag[id(ins)] = '%s:%d' % (path, mem)
                elif ins.op == 'store':
                    items.append(Item('Store', ins=ins, block=b, tag='%s:%d' % (path, mem)))
                    mem += 1
                elif ins.op == 'call' and not self.is_pure_call(ins):
                    items.append(Item('Call', ins=ins, block=b))
                    mem += 1
            t = b.term
            if t.op == 'ret':
                items.append(Item('Ret', ins=t, block=b, came=came, trail=list(trail)))
                return items
            if t.op != 'br':
                raise Unsupported('terminator %s' % t.op)
            succs = [fn.bmap[x] for x in t.x['labels']]
            if b.name in self.forced:
                succs = [fn.bmap[self.forced[b.name]]]
            if len(succs) == 1:
                nxt = succs[0]
                if loop is not None and nxt is loop.header:
                    return items
                came, b = b, nxt
                continue
            if loop is not None and loop.bottom and b is loop.test_block:
                return items
            if loop is not None and b is loop.header and not loop.bottom:
                came, b = b, loop.body_entry
                continue
            s1, s2 = succs
            out1 = loop is not None and s1 not in loop.blocks
            out2 = loop is not None and s2 not in loop.blocks
            if out1 or out2:
                if out1 and out2:
                    raise Unsupported('both arms leave the loop at %s' % b.name)
                arm, cont = (s1, s2) if out1 else (s2, s1)
                sub = self.abort_seq(arm, b, '%s/%dx' % (path, mem))
                items.append(Item('ExitIf', ins=t, block=b, negate=not out1, body=sub))
                came, b = b, cont
                continue
            r1 = self.fwd_reach(s1, loop, stop)
            r2 = self.fwd_reach(s2, loop, stop)
            if s2 in r1 and s1 not in r2:
                merge, then_, else_, neg = s2, s1, None, False
            elif s1 in r2 and s2 not in r1:
                merge, then_, else_, neg = s1, s2, None, True
            else:
                common = [x for x in fn.rpo() if x in r1 and x in r2]
                if not common:
                    if loop is None:
                        # two terminal arms
                        a1 = self.seq(s1, loop, '%s/%dt' % (path, mem), stop, came=b)
                        a2 = self.seq(s2, loop, '%s/%de' % (path, mem), stop, came=b)
                        items.append(Item('If', ins=t, block=b, negate=False, then=a1, else_=a2))
                        return items
                    # both arms run to the latch: treat the latch-side join as the end of the body
                    a1 = self.seq(s1, loop, '%s/%dt' % (path, mem), stop, came=b)
                    a2 = self.seq(s2, loop, '%s/%de' % (path, mem), stop, came=b)
                    items.append(Item('If', ins=t, block=b, negate=False, then=a1, else_=a2))
                    return items
                merge, then_, else_, neg = common[0], s1, s2, False
            a1 = self.seq(then_, loop, '%s/%dt' % (path, mem), merge, came=b)
            a2 = self.seq(else_, loop, '%s/%de' % (path, mem), merge, came=b) if else_ is not None else []
            items.append(Item('If', ins=t, block=b, negate=neg, then=a1, else_=a2))
            mem += 1
            came, b = b, merge

    def abort_seq(self, b, came, path):
        """blocks of an early return: straight line to a ret (a shared return block selects its phi by edge)"""
        items = []
        mem = 0
        seen = 0
        trail = [came] if came is not None else []
        while True:
            seen += 1
            trail.append(b)
            if seen > 20:
                raise Unsupported('early exit does not reach a return')
            for ins in b.instrs[:-1]:
                if ins.op == 'phi':
                    continue
                if ins.op == 'load':
                    self.loadtag[id(ins)] = '%s:%d' % (path, mem)
                elif ins.op == 'store':
                    items.append(Item('Store', ins=ins, block=b))
                    mem += 1
                elif ins.op == 'call' and not self.is_pure_call(ins):
                    items.append(Item('Call', ins=ins, block=b))
                    mem += 1
            t = b.term
            if t.op == 'ret':
                items.append(Item('Ret', ins=t, block=b, came=came, trail=list(trail)))
                return items
            if t.op != 'br' or len(t.x['labels']) != 1:
                raise Unsupported('early exit with further control flow (break?) at %s' % b.name)
            nb = self.fn.bmap[t.x['labels'][0]]
            if len(nb.preds) > 1 and nb.term.op != 'ret':
                raise Unsupported('loop is left by a break at %s' % b.name)
            came, b = b, nb

    # ------------------------------------------------------------------ resolved statement tree
    def resolve(self, e, loop):
        """placeholders -> closed forms in the loop counters, innermost first"""
        if not isinstance(e, sp.Basic):
            return e
        for l in self.chain(loop):
            self.solve(l)
            sub = {p: l.closed[r] for r, p in l.P.items() if p in e.free_symbols}
            if sub:
                e = e.subs(sub, simultaneous=True)
        if e.has(ldraw):
            e = e.replace(ldraw, lambda p_, sz, tag: ld(*(self.split(p_, sz) + (tag,))))
        return e

    def ret_value(self, item):
        t = item.ins
        if not t.ops:
            return None
        v = t.ops[0]
        b = item.block
        trail = getattr(item, 'trail', None) or ([item.came, b] if item.came is not None else [b])
        # a returned phi is resolved along the blocks this path came through (a shared return block behind a loop-exit block
        # selects twice); what is left is evaluated where it is defined
        idx = len(trail) - 1
        blk = b
        for _ in range(8):
            if v.k != 'reg':
                break
            d = self.fn.defs.get(v.v)
            if d is None or d.op != 'phi' or d.block.name in self.loops:
                break       # (the variable of a loop is its value at the exit, not a selection by edge)
            js = [j for j in range(idx, 0, -1) if trail[j] is d.block]
            if not js:
                break
            j = js[0]
            nxt = None
            for o, lb in zip(d.ops, d.x['labels']):
                if lb == trail[j - 1].name:
                    nxt = o
            if nxt is None:
                break
            v, idx, blk = nxt, j - 1, trail[j - 1]
        try:
            return self.ev(v, b)
        except Unsupported:
            return self.ev(v, blk)

    def emit(self, items=None, loop=None):
        """-> resolved tree: list of tuples
        ('loop', counter, T, body, path) ('store', base, index, value, loc) ('call', name, args, loc)
        ('exitif', Cmp, body) ('if', Cmp, then, else) ('ret', value)"""
        if items is None:
            items = self.structure()
        out = []
        R = lambda e: self.resolve(e, loop)
        for it in items:
            if it.kind == 'Loop':
                l = it.loop
                self.solve(l)
                T = R(l.T) if l.T is not None else None
                out.append(('loop', l.counter, T, self.emit(it.body, l), it.path, l))
            elif it.kind == 'Store':
                ins = it.ins
                p = self.ev(ins.ops[1], it.block)
                v = self.ev(ins.ops[0], it.block)
                vt = None
                src = ins.ops[0]
                size = self.elem(src.ty) if src.ty is not None else 8
                base, idx = self.split(R(p), size)
                out.append(('store', base, idx, R(v), self.fn.loc(ins), getattr(it, 'tag', None)))
            elif it.kind == 'Call':
                ins = it.ins
                name = ins.x['callee'].v if ins.x['callee'].k == 'global' else None
                args = [R(self.ev(o, it.block)) for o in ins.ops]
                out.append(('call', name, args, self.fn.loc(ins)))
            elif it.kind == 'ExitIf':
                c = self.cond_of(it.ins.ops[0], it.block)
                if it.negate:
                    c = c.neg()
                out.append(('exitif', c.subs(R), self.emit(it.body, loop), self.fn.loc(it.ins)))
            elif it.kind == 'If':
                c = self.cond_of(it.ins.ops[0], it.block)
                if it.negate:
                    c = c.neg()
                out.append(('if', c.subs(R), self.emit(it.then, loop), self.emit(it.else_, loop), self.fn.loc(it.ins), (it.block.name, it.negate)))
            elif it.kind == 'Ret':
                v = self.ret_value(it)
                out.append(('ret', R(v) if v is not None else None, self.fn.loc(it.ins)))
        return out

    def domain_facts(self, loops):
        """[(counter, T)] -> expressions >= 0"""
        out = list(self.base_facts)
        for c, T in loops:
            out.append(c)
            if T is not None:
                out.append(T - 1 - c)
        return out


def decided_branches(a, tree, ctx=(), out=None):
    """{block: successor}: two-way branches (not loop tests) whose condition is decided by the assumptions on the parameters
    and the ranges of the enclosing loops, e.g. the guard of `if (n) do ... while (--n)` with n >= 1"""
    out = {} if out is None else out
    for t in tree:
        if t[0] == 'loop':
            decided_branches(a, t[3], ctx + ((t[1], t[2]),), out)
        elif t[0] == 'if':
            v = a.decide(t[1], a.domain_facts(ctx)) if len(t) > 5 else None
            if v is None:
                decided_branches(a, t[2], ctx, out)
                decided_branches(a, t[3], ctx, out)
            else:
                bname, neg = t[5]
                blk = a.fn.bmap[bname]
                s1, s2 = blk.term.x['labels']
                # the emitted condition is the branch condition, negated when the then-arm hangs on the false edge
                holds = v != neg
                out[bname] = s1 if holds else s2
        elif t[0] == 'exitif':
            decided_branches(a, t[2], ctx, out)
    return out


def emit_pruned(mk):
    """mk() -> Aff.  Statement tree in which decided branches are replaced by the arm taken (the structure is rebuilt, so
    that memory-state tags are those of the simplified program)"""
    a = mk()
    tree = a.emit()
    for _ in range(3):
        forced = decided_branches(a, tree)
        if not forced or all(a.forced.get(k) == v for k, v in forced.items()):
            break
        f2 = dict(a.forced)
        f2.update(forced)
        a = mk()
        a.forced = f2
        tree = a.emit()
    return a, tree


def show(tree, ind=0):
    pad = '  ' * ind
    L = []
    for t in tree:
        if t[0] == 'loop':
            L.append('%sloop %s < %s' % (pad, t[1], t[2]))
            L.extend(show(t[3], ind + 1))
        elif t[0] == 'store':
            L.append('%s%s[%s] = %s' % (pad, t[1], t[2], t[3]))
        elif t[0] == 'call':
            L.append('%scall %s(%s)' % (pad, t[1], ', '.join(map(str, t[2]))))
        elif t[0] == 'exitif':
            L.append('%sexitif %r' % (pad, t[1]))
            L.extend(show(t[2], ind + 1))
        elif t[0] == 'if':
            L.append('%sif %r' % (pad, t[1]))
            L.extend(show(t[2], ind + 1))
            if t[3]:
                L.append('%selse' % pad)
                L.extend(show(t[3], ind + 1))
        elif t[0] == 'ret':
            L.append('%sret %s' % (pad, t[1]))
    return L
