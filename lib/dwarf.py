"""Resolved C type facts from the debug metadata clang attaches to the IR (-g).

The type graph in the metadata is produced by clang's type checker from the *current* headers:
typedefs are resolved, sizes/offsets are final, integer signedness is kept (which the IR types lose).
Classes (specs/abi.json): f32 f64 iN uN bool c8 void ('ptr',cls) ('fn',ret,(params)) ('array',cls,n)
('struct',name)
"""
import re


class MD:
    def __init__(self, module):
        self.meta = module.meta
        self.cache = {}

    def node(self, ref):
        if ref in self.cache:
            return self.cache[ref]
        s = self.meta.get(ref)
        if s is None:
            return None
        n = parse_md(s)
        self.cache[ref] = n
        return n

    # ---- type classes
    def cls(self, ref, depth=0):
        if ref is None or ref == 'null':
            return 'void'
        if depth > 40:
            return 'rec'
        n = self.node(ref)
        if n is None:
            return '?'
        k = n['kind']
        if k == 'DIBasicType':
            enc = n.get('encoding', '')
            size = int(n.get('size', 0))
            if enc == 'DW_ATE_float':
                return 'f%d' % size
            if enc == 'DW_ATE_boolean':
                return 'bool'
            if enc in ('DW_ATE_signed_char', 'DW_ATE_unsigned_char') and n.get('name') == 'char':
                return 'c8'
            if enc in ('DW_ATE_signed', 'DW_ATE_signed_char'):
                return 'i%d' % size
            if enc in ('DW_ATE_unsigned', 'DW_ATE_unsigned_char'):
                return 'u%d' % size
            return '?%s' % enc
        if k == 'DIDerivedType':
            tag = n.get('tag')
            if tag in ('DW_TAG_typedef', 'DW_TAG_const_type', 'DW_TAG_volatile_type', 'DW_TAG_restrict_type',
                       'DW_TAG_member', 'DW_TAG_atomic_type'):
                return self.cls(n.get('baseType'), depth + 1)
            if tag == 'DW_TAG_pointer_type':
                inner = self.cls(n.get('baseType'), depth + 1)
                if isinstance(inner, tuple) and inner[0] == 'fn':
                    return inner  # a C function pointer is what Rust calls `extern "C" fn`
                return ('ptr', inner)
            return '?%s' % tag
        if k == 'DICompositeType':
            tag = n.get('tag')
            if tag == 'DW_TAG_structure_type' or tag == 'DW_TAG_union_type':
                return ('struct', n.get('name') or ('anon@' + ref))
            if tag == 'DW_TAG_array_type':
                el = self.node(n.get('elements'))
                cnt = None
                dims = []
                for r in (el or {}).get('items', []):
                    sr = self.node(r)
                    if sr and sr['kind'] == 'DISubrange':
                        c = sr.get('count')
                        dims.append(int(c) if c is not None and re.fullmatch(r'-?\d+', str(c)) else None)
                c = self.cls(n.get('baseType'), depth + 1)
                for d in reversed(dims):
                    c = ('array', c, d)
                return c
            if tag == 'DW_TAG_enumeration_type':
                size = int(n.get('size', 32))
                return 'u%d' % size
            return '?%s' % tag
        if k == 'DISubroutineType':
            ts = self.node(n.get('types'))
            items = (ts or {}).get('items', [])
            if not items:
                return ('fn', 'void', ())
            return ('fn', self.cls(items[0], depth + 1), tuple(self.cls(x, depth + 1) for x in items[1:]))
        return '?%s' % k

    def strip(self, ref):
        """follow typedef/cv to the underlying node ref"""
        for _ in range(40):
            n = self.node(ref)
            if n and n['kind'] == 'DIDerivedType' and n.get('tag') in (
                    'DW_TAG_typedef', 'DW_TAG_const_type', 'DW_TAG_volatile_type', 'DW_TAG_restrict_type'):
                ref = n.get('baseType')
                continue
            return ref
        return ref

    def structs(self):
        """name -> {size, members:[{name, offset, size, cls}]} for every complete struct in the unit"""
        out = {}
        for ref in self.meta:
            s = self.meta[ref]
            if 'DW_TAG_structure_type' not in s or 'DICompositeType' not in s:
                continue
            n = self.node(ref)
            if not n.get('name') or 'DIFlagFwdDecl' in str(n.get('flags', '')):
                continue
            els = self.node(n.get('elements')) if n.get('elements') else None
            mem = []
            for r in (els or {}).get('items', []):
                m = self.node(r)
                if not m or m.get('tag') != 'DW_TAG_member':
                    continue
                mem.append({'name': m.get('name'), 'offset': int(m.get('offset', 0)) // 8, 'type_ref': m.get('baseType'),
                            'size': int(m.get('size', 0)) // 8, 'cls': self.cls(m.get('baseType')),
                            'bitfield': 'DIFlagBitField' in str(m.get('flags', ''))})
            out[n['name']] = {'size': int(n.get('size', 0)) // 8, 'members': mem, 'ref': ref}
        return out

    def flatten(self, sname, prefix='', base=0, out=None, depth=0):
        """{byte offset: dotted scalar field name} of struct `sname`, nested structs and arrays expanded"""
        out = {} if out is None else out
        st = self.structs().get(sname)
        if st is None or depth > 6:
            return out
        for m in st['members']:
            self._flat_type(m['type_ref'], prefix + (m['name'] or '?'), base + m['offset'], out, depth)
        return out

    def _flat_type(self, ref, name, off, out, depth):
        ref = self.strip(ref)
        n = self.node(ref)
        if n and n['kind'] == 'DICompositeType' and n.get('tag') == 'DW_TAG_structure_type' and n.get('name'):
            self.flatten(n['name'], name + '.', off, out, depth + 1)
            return
        if n and n['kind'] == 'DICompositeType' and n.get('tag') == 'DW_TAG_array_type':
            c = self.cls(ref)
            cnt = c[2] if isinstance(c, tuple) and c[0] == 'array' else None
            esz = int(n.get('size', 0)) // 8 // cnt if cnt else 0
            if cnt and esz and cnt <= 64:
                for k in range(cnt):
                    self._flat_type(n.get('baseType'), '%s[%d]' % (name, k), off + k * esz, out, depth + 1)
                return
        out[off] = name

    def subprograms(self):
        """name -> ('fn', ret, params) for every function *defined* in the unit"""
        out = {}
        for ref, s in self.meta.items():
            if 'DISubprogram(' not in s:
                continue
            n = self.node(ref)
            nm = n.get('linkageName') or n.get('name')
            if not nm or n.get('type') is None:
                continue
            isdef = 'DISPFlagDefinition' in str(n.get('spFlags', ''))
            c = self.cls(n['type'])
            if nm not in out or isdef:
                out[nm] = {'sig': c, 'definition': isdef, 'line': n.get('line'), 'file': n.get('file')}
        return out


def parse_md(s):
    s = s.strip()
    if s.startswith('distinct '):
        s = s[9:]
    if s.startswith('!{'):
        items = [x.strip() for x in split_top(s[2:s.rindex('}')])]
        return {'kind': 'tuple', 'items': [x for x in items if x]}
    m = re.match(r'!(\w+)\((.*)\)\s*$', s, re.S)
    if not m:
        return {'kind': 'other', 'text': s}
    d = {'kind': m.group(1)}
    for part in split_top(m.group(2)):
        if ':' in part:
            k, v = part.split(':', 1)
            v = v.strip()
            if v.startswith('"') and v.endswith('"'):
                v = v[1:-1]
            d[k.strip()] = v
    return d


def split_top(s):
    out = []
    depth = 0
    cur = []
    q = False
    i = 0
    while i < len(s):
        c = s[i]
        if q:
            cur.append(c)
            if c == '\\':
                i += 1
                cur.append(s[i])
            elif c == '"':
                q = False
        elif c == '"':
            q = True
            cur.append(c)
        elif c in '({[':
            depth += 1
            cur.append(c)
        elif c in ')}]':
            depth -= 1
            cur.append(c)
        elif c == ',' and depth == 0:
            out.append(''.join(cur).strip())
            cur = []
        else:
            cur.append(c)
        i += 1
    if cur:
        out.append(''.join(cur).strip())
    return out
