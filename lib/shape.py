"""SHAPE (explicit-heaplet variant) - abstract interpretation of pointer-manipulating code over a symbolic heaplet.

Nodes are symbolic object identities (distinct ids = distinct objects); pointer fields live in the symx store.  A heaplet
is instantiated from a *shape pattern* of the operation's documented precondition (e.g. ring [ctx, A*] with A* of length
0, 1, 2 and "2 + summary segment"); a summary segment is a node whose own cells are lazy: if the code ever reads them the
instantiation is too small and the case is INCONCLUSIVE, otherwise the segment stands for a chain of any length (locality
argument).  After the run the successor word and the link invariants are read off the final store."""
import llir, symx, alg
from symx import Ptr, Unsupported, TOP, NULL

PTR = llir.Ty('ptr', llir.I(8))


class HeapDom(alg.Alg):
    def __init__(self):
        alg.Alg.__init__(self)
        self.garbage = 0

    def entry(self, base, off, ty):
        if ty.is_ptr:
            # an unread pointer cell of a floating node or of a summary segment: an unknown pointer
            self.garbage += 1
            return Ptr('?%s+%s' % (base, off), 0)
        return alg.Alg.entry(self, base, off, ty)

    def call(self, name, args, ins, interp, st, fn):
        if name.startswith('llvm.memcpy') or name.startswith('llvm.memmove'):
            dst, src, n = args[0], args[1], self.concrete(args[2])
            if n is None or not isinstance(dst, Ptr) or not isinstance(src, Ptr) or n % 8:
                raise Unsupported('block copy with symbolic size')
            vals = []
            for k in range(0, n, 8):
                key = (src.base, src.off + k)
                if key in st.store:
                    vals.append(st.store[key])
                else:
                    vals.append((interp.load(Ptr(src.base, src.off + k), llir.I(64), st), llir.I(64)))
            for k, (v, t) in zip(range(0, n, 8), vals):
                interp.store(Ptr(dst.base, dst.off + k), v, t, st)
            return None
        return alg.Alg.call(self, name, args, ins, interp, st, fn)

    def nonnull(self, base):
        return not base.startswith('?')

    def distinct_bases(self, a, b):
        return not (a.startswith('?') or b.startswith('?'))

    def null_test(self, pred, p):
        raise Unsupported('null test of an unknown pointer %r' % (p,))

    def alias_test(self, pred, a, b):
        raise Unsupported('comparison with an unknown pointer')


class Heap:
    def __init__(self):
        self.cells = {}     # (node, off) -> Ptr | NULL
        self.nodes = []
        self.summary = set()

    def node(self, n, summary=False):
        if n not in self.nodes:
            self.nodes.append(n)
        if summary:
            self.summary.add(n)
        return n

    def set(self, n, off, target):
        self.node(n)
        self.cells[(n, off)] = NULL if target is None else (target if isinstance(target, Ptr) else Ptr(target, 0))

    def ring(self, names, nxt=0, prv=8):
        """doubly linked ring in the given order; summary nodes keep their own cells lazy but neighbours point at them"""
        k = len(names)
        for i, n in enumerate(names):
            self.node(n, summary=n.startswith('S'))
            a, b = names[(i + 1) % k], names[(i - 1) % k]
            if n.startswith('S'):
                continue
            self.set(n, nxt, a)
            self.set(n, prv, b)
        return self

    def state(self):
        st = symx.State()
        for (n, off), v in self.cells.items():
            st.store[(n, off)] = (v, PTR)
            st.offs[(n, off)] = off
        return st


def run(fn, lookup, args, heap, dom=None, max_paths=256):
    dom = dom or HeapDom()
    it = symx.Interp(dom, lookup, max_paths=max_paths)
    leaves = it.run(fn, args, heap.state())
    return dom, leaves


def cell(leaf, heap, n, off):
    v = leaf.store.get((n, off))
    if v is not None:
        return v[0]
    return None   # lazy (summary or floating) cell never written


def touched_summary(leaf, heap):
    return sorted(set(k[0] for k in leaf.reads if k[0] in heap.summary))


def succ_word(leaf, heap, start, off, limit=32, orig=None):
    """follow the pointer field `off` from `start`; a lazy cell of a summary node continues with its original successor"""
    word = [start]
    cur = start
    for _ in range(limit):
        v = cell(leaf, heap, cur, off)
        if v is None:
            if orig and (cur, off) in orig:
                nxt = orig[(cur, off)]
            else:
                word.append('?')
                return word
        elif isinstance(v, Ptr):
            if v.base == 'null':
                word.append(None)
                return word
            if v.off != 0:
                word.append('%s+%s' % (v.base, v.off))
                return word
            nxt = v.base
        else:
            word.append(repr(v))
            return word
        if nxt == start:
            return word
        if nxt in word:
            word.append('->' + nxt)   # cycle not through start
            return word
        word.append(nxt)
        cur = nxt
    word.append('...')
    return word
