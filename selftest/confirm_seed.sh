#!/bin/sh
# usage: selftest/confirm_seed.sh <worktree> <seed-name> <property-id>
# confirms a sub-agent's seeded defect in its scratch worktree (tests pass with the change, demo fails with / passes without),
# stores patch+demo under /verif/seeded/<seed-name>/, then runs the property's checks against /repo with the patch applied and undone.
WT=$1; NAME=$2; PID=$3
OUT=/verif/seeded/$NAME
mkdir -p $OUT
cd $WT || exit 2
git diff -- src include > $OUT/patch.diff
[ -s $OUT/patch.diff ] || { echo "empty patch"; exit 2; }
DEMO=$(for f in demo.sh demo.c demo.py demo.rs; do [ -f $f ] && echo $f; done | head -1)
[ "$DEMO" = demo.sh ] && cp demo.rs demo_shim.c $OUT/ 2>/dev/null
cp $DEMO $OUT/ 2>/dev/null
run_demo() {
  case "$DEMO" in
    demo.c) cc -I$WT/include -DA_HAVE_H="\"$WT/_build/a.cmake.h\"" demo.c _build/liba.a -lm -o demo.bin 2>&1 | tail -3 && ./demo.bin ;;
    demo.sh) sh ./demo.sh ;;
    demo.py) python3 ./demo.py ;;
    demo.rs) sh ./demo_build.sh ;;
  esac
}
echo "== with change: build + ctest"
cmake --build _build 2>&1 | tail -1
ctest --test-dir _build -j8 2>&1 | grep "tests passed\|tests failed" | head -2
echo "== with change: demo"
run_demo > $OUT/demo_with.txt 2>&1; RC1=$?
tail -3 $OUT/demo_with.txt; echo "demo exit with change: $RC1"
git checkout -q -- src include   # (no git stash: the stash is shared between worktrees)
cmake --build _build 2>&1 | tail -1
echo "== without change: demo"
run_demo > $OUT/demo_without.txt 2>&1; RC0=$?
tail -2 $OUT/demo_without.txt; echo "demo exit without change: $RC0"
git apply $OUT/patch.diff
echo "== checks against /repo with the patch applied"
cd /verif
git -C /repo apply $OUT/patch.diff || { echo "patch does not apply to /repo"; exit 2; }
for T in quick thorough; do
  VERIF_OUT=$(mktemp -d) ./check $PID --tier $T > $OUT/check_$T.txt 2>&1; echo "check $PID $T exit=$?"; grep -E "^(violation|VIOLATION|INCONCLUSIVE)" $OUT/check_$T.txt | cut -c1-300 | head -5
done
git -C /repo checkout -- .
git -C /repo status --short | grep -v _build
echo "RC_with=$RC1 RC_without=$RC0"
