#!/bin/sh
# usage: selftest/mutate.sh <prop-id> <tier> <file-relative-to-repo> <python-regex> <replacement> [count]
# makes a scratch copy of /repo's sources (outside /repo and /verif), applies one substitution, runs the check against it
# with evidence redirected, prints the verdict, removes the copy.
set -e
ID=$1; TIER=$2; FILE=$3; PAT=$4; REP=$5; CNT=${6:-1}
D=$(mktemp -d /tmp/liba-mut-XXXXXX)
trap 'rm -rf "$D"' EXIT
mkdir -p "$D/repo"
(cd /repo && tar cf - --exclude=_build --exclude=.git . ) | (cd "$D/repo" && tar xf -)
python3 - "$D/repo/$FILE" "$PAT" "$REP" "$CNT" <<'PY'
import re,sys
p,pat,rep,cnt=sys.argv[1:5]
s=open(p).read()
n=len(re.findall(pat,s,re.S))
if n==0: print("MUTATION DID NOT MATCH"); sys.exit(3)
s2=re.sub(pat,rep,s,count=int(cnt),flags=re.S)
open(p,'w').write(s2)
print("mutated %s (%d candidate sites, %s replaced)"%(p,n,cnt))
PY
mkdir -p "$D/out"
set +e
VERIF_REPO="$D/repo" VERIF_OUT="$D/out" /verif/check "$ID" --tier "$TIER" > "$D/log" 2>&1
RC=$?
grep -E "^(violation|VIOLATION|INCONCLUSIVE|KNOWN)" "$D/log" | cut -c1-400 | head -${MAXL:-8}
echo "exit=$RC"
