#!/bin/sh
# usage: selftest/seeds.sh [tier]   - regression over the seeded defects: every seeded/<name>/patch.diff is applied to its own scratch
# worktree of /repo (under /tmp, removed afterwards), the property's check is run against that tree (VERIF_REPO), and the verdict is
# listed.  Expected: exit 1 for every seed, except those whose meta.json says NOT REFUTED:
#   exit 2 (no verdict; an added / split loop or a construct outside the rule templates, documented in DESIGN 8.3):
#     C05-que-insert-backward-stale-num, C18-length-ascii-pair-overrun, C03-avl-post-tail-mirror-exit, C09-triU2-merged-loops-overrun,
#     C08-plu-inv-unit-vector-transposed, C09-mulTT-zero-skip-wrong-stride, C11-mean-sum-then-scale
#   exit 0 (missed; rounding-level effects the exact-real reading cannot see, DESIGN 8.3 / 8.5):
#     C11-acosh-near1-cancel, C13-cup-algebra-de-morgan, C14-bell-ta-common-denominator-overflow
# Nothing is written to /repo or to /verif/evidence.
TIER=${1:-quick}
cd /verif
ls seeded | xargs -P 6 -I{} sh -c '
N={}; TIER='$TIER'
PID=$(python3 -c "import json; print(json.load(open(\"/verif/seeded/$N/meta.json\"))[\"property\"])" 2>/dev/null) || { echo "$N: no meta.json"; exit 0; }
D=/tmp/sd-$N
git -C /repo worktree add -q --detach $D HEAD 2>/dev/null || { echo "$N: worktree failed"; exit 0; }
if git -C $D apply /verif/seeded/$N/patch.diff 2>/dev/null; then
  O=$(mktemp -d)
  VERIF_REPO=$D VERIF_OUT=$O /verif/check $PID --tier $TIER > $O/log 2>&1; RC=$?
  echo "$N: $PID exit=$RC $(grep -E "^violation" $O/log | head -1 | cut -c1-150)"
  rm -rf $O
else
  echo "$N: patch does not apply"
fi
git -C /repo worktree remove --force $D
'
