#!/bin/sh
# usage: selftest/benign.sh <prop-id> <patch>...   - applies each behaviour-preserving patch to /repo, runs the quick check, undoes it.
# A VIOLATION (exit 1) on such a patch is a false alarm; exit 2 (no verdict) is tolerated but listed.
ID=$1; shift
for P in "$@"; do
  case "$P" in /*) ;; *) P="$(pwd)/$P" ;; esac
  [ -s "$P" ] || { echo "$P: empty"; continue; }
  git -C /repo apply "$P" 2>/dev/null || { echo "$P: does not apply"; continue; }
  VERIF_OUT=$(mktemp -d) /verif/check $ID --tier quick > /tmp/benign.log 2>&1; RC=$?
  git -C /repo checkout -- .
  echo "$P: exit=$RC $(grep -E '^(violation|INCONCLUSIVE)' /tmp/benign.log | head -2 | cut -c1-260 | tr '\n' '|')"
done
