#!/bin/sh
# usage: selftest/benign_all.sh [jobs] [tier]  - the whole behaviour-preserving corpus (selftest/benign/<id>/k.patch), each patch in its own
# scratch worktree of /repo (under /tmp, removed afterwards) with the property's quick check run against that tree (VERIF_REPO).
# Expected: exit 0 (or 2 = no verdict, listed) for every patch; exit 1 is a false alarm.  /repo and /verif/evidence are not touched.
J=${1:-6}
TIER=${2:-quick}
cd /verif
ls selftest/benign/C*/*.patch | xargs -P $J -I{} sh -c '
F={}; TIER='$TIER'; ID=$(basename $(dirname $F)); K=$(basename $F .patch)
D=/tmp/bn-$ID-$K
git -C /repo worktree add -q --detach $D HEAD 2>/dev/null || { echo "$F: worktree failed"; exit 0; }
if git -C $D apply /verif/$F 2>/dev/null; then
  O=$(mktemp -d)
  VERIF_REPO=$D VERIF_OUT=$O /verif/check $ID --tier $TIER > $O/log 2>&1; RC=$?
  echo "$F: exit=$RC $(grep -E "^(violation|INCONCLUSIVE)" $O/log | head -1 | cut -c1-160)"
  rm -rf $O
else
  echo "$F: does not apply"
fi
git -C /repo worktree remove --force $D
'
